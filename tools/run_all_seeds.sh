#!/bin/bash
# Runs every seeded change, hand-written mutant and fix revert against the quick tier of the check of its property.
# /repo must be clean and no other run may use /repo meanwhile.  Appends to detection_log.md; summary on stdout.
cd "$(dirname "$0")/.."
ok=0; miss=0
for d in seeded/*/; do
  id=$(basename $d); prop=${id%%_*}
  r=$(/venv/bin/python tools/run_seed.py $id $prop 2>&1 | grep " vs " | head -1)
  echo "$r"
  if echo "$r" | grep -q "rc=1"; then ok=$((ok+1)); else miss=$((miss+1)); fi
done
for f in mutants/*.diff; do
  n=$(basename $f .diff); prop=${n%%_*}
  r=$(/venv/bin/python tools/run_seed.py $f $prop 2>&1 | grep " vs " | head -1)
  echo "$r"
  if echo "$r" | grep -q "rc=1"; then ok=$((ok+1)); else miss=$((miss+1)); fi
done
echo "detected=$ok missed_or_error=$miss"
