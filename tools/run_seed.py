#!/venv/bin/python
"""Run registered quick checks against a seeded change:  tools/run_seed.py <seed-id|path.diff> [C01 C04 ...] [--tier quick]

Applies the patch to /repo (git apply), runs the checks, and ALWAYS restores /repo (git checkout -- .).
Records the outcome in /verif/seeded/<id>/meta.json (detected_by) and appends to detection_log.md.
"""
import json
import os
import re
import subprocess
import sys
import time

VERIF = os.path.dirname(os.path.dirname(os.path.abspath(__file__)))


def main():
    args = [a for a in sys.argv[1:] if not a.startswith("--")]
    tier = "quick"
    if "--tier" in sys.argv:
        tier = sys.argv[sys.argv.index("--tier") + 1]
        args = [a for a in args if a != tier]
    sid = args[0]
    if sid.endswith(".diff"):
        patch, name, metap = os.path.abspath(sid), os.path.basename(sid)[:-5], None
    else:
        patch, name = os.path.join(VERIF, "seeded", sid, "patch.diff"), sid
        metap = os.path.join(VERIF, "seeded", sid, "meta.json")
    checks = args[1:] or [name.split("_")[0]]
    st = subprocess.run("git status --porcelain --untracked-files=no", shell=True, cwd="/repo", capture_output=True, text=True).stdout.strip()
    assert st == "", "/repo is not clean: " + st
    r = subprocess.run(["git", "apply", patch], cwd="/repo", capture_output=True, text=True)
    assert r.returncode == 0, r.stderr
    results = {}
    try:
        for c in checks:
            t0 = time.time()
            p = subprocess.run(["/venv/bin/python", "-m", "mc.run", c, "--tier", tier], cwd=VERIF, capture_output=True, text=True)
            out = p.stdout + p.stderr
            viol = [l for l in out.splitlines() if l.startswith("VIOLATION")]
            first = next((l.strip() for l in out.splitlines() if l.startswith("  ") and not l.startswith("  ..")), "")
            results[c] = {"rc": p.returncode, "violations_reported": len(viol), "first": first[:300], "wall_s": round(time.time() - t0, 1)}
            print(f"{name} vs {c} [{tier}]: rc={p.returncode} VIOLATION lines={len(viol)} wall={results[c]['wall_s']}s\n    {first[:300]}")
            if p.returncode not in (0, 1):
                print(out[-1500:])
    finally:
        subprocess.run("git checkout -- .", shell=True, cwd="/repo")
    if metap and os.path.exists(metap):
        meta = json.load(open(metap))
        meta.setdefault("detected_by", {})
        for c, v in results.items():
            meta["detected_by"][f"{c}:{tier}"] = v
        json.dump(meta, open(metap, "w"), indent=1)
    with open(os.path.join(VERIF, "detection_log.md"), "a") as f:
        for c, v in results.items():
            verdict = "DETECTED" if v["rc"] == 1 else ("missed" if v["rc"] == 0 else "HARNESS-ERROR")
            f.write(f"| {name} | {c} ({tier}) | {verdict} | {v['first'][:160].replace('|', '/')} |\n")
    return 0


if __name__ == "__main__":
    sys.exit(main())
