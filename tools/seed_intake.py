#!/venv/bin/python
"""Intake of a seeded change produced by a sub-agent:  tools/seed_intake.py C05 s1 [--breaks C05]

Confirms, in the agent's scratch worktree (/tmp/wt/<ID>), that
  * the demo passes on the clean worktree,
  * the patch applies, the repository suite has exactly the baseline outcome with it,
  * the demo fails with it,
then copies patch.diff, demo.py, README.md into /verif/seeded/<ID>_<sN>/ with a meta.json.
"""
import json
import os
import shutil
import subprocess
import sys
import xml.etree.ElementTree as ET

VERIF = os.path.dirname(os.path.dirname(os.path.abspath(__file__)))


def sh(cmd, cwd, env=None, timeout=1800):
    e = dict(os.environ)
    e.update(env or {})
    p = subprocess.run(cmd, shell=True, cwd=cwd, env=e, capture_output=True, text=True, timeout=timeout)
    return p.returncode, (p.stdout + p.stderr)


def suite(wt, tag):
    xml = f"/tmp/seed_{tag}.xml"
    rc, out = sh(f"/venv/bin/python -m pytest -q -p no:cacheprovider --timeout=900 --continue-on-collection-errors --junitxml={xml}", wt, {"PYTHONPATH": wt})
    passed = set()
    for tc in ET.parse(xml).iter("testcase"):
        if not list(tc):
            passed.add(tc.get("classname") + "::" + tc.get("name"))
    os.remove(xml)
    return passed, out.strip().splitlines()[-1]


def main():
    pid, sn = sys.argv[1], sys.argv[2]
    tag = sys.argv[3] if len(sys.argv) > 3 else ""  # e.g. "r2" for a second round of seeds
    wt = f"/tmp/wt/{pid}"
    sd = f"{wt}/_seed/{sn}"
    env = {"PYTHONPATH": wt}
    bl = set(json.load(open("/root/.vp/BASELINE.json"))["stable_pass"])
    rc, out = sh("git status --porcelain --untracked-files=no", wt)
    assert out.strip() == "", f"worktree not clean: {out}"
    rc_clean, out_clean = sh(f"/venv/bin/python _seed/{sn}/demo.py", wt, env)
    rc, out = sh(f"git apply _seed/{sn}/patch.diff", wt)
    assert rc == 0, f"patch does not apply: {out}"
    try:
        rc, files = sh("git diff --name-only", wt)
        passed, line = suite(wt, f"{pid}_{sn}")
        missing = sorted(bl - passed)
        rc_patched, out_patched = sh(f"/venv/bin/python _seed/{sn}/demo.py", wt, env)
    finally:
        sh("git checkout -- .", wt)
    ok = rc_clean == 0 and rc_patched != 0 and not missing
    print(f"{pid}/{sn}: demo clean rc={rc_clean} patched rc={rc_patched}; suite: {line}; baseline tests no longer passing: {missing}")
    print("  files:", files.split())
    print("  patched demo tail:", out_patched.strip().splitlines()[-3:])
    if not ok:
        print("  REJECTED")
        return 1
    dst = os.path.join(VERIF, "seeded", f"{pid}_{tag}{sn}")
    os.makedirs(dst, exist_ok=True)
    for f in ("patch.diff", "demo.py", "README.md"):
        if os.path.exists(f"{sd}/{f}"):
            shutil.copy(f"{sd}/{f}", dst)
    meta = {
        "id": f"{pid}_{tag}{sn}",
        "breaks_property": pid,
        "source": "independent sub-agent given only the property text and a scratch worktree",
        "files_touched": files.split(),
        "needs_to_manifest": open(f"{sd}/README.md").read()[:1500] if os.path.exists(f"{sd}/README.md") else "",
        "confirmed": {
            "demo_on_clean_tree_rc": rc_clean,
            "demo_on_patched_tree_rc": rc_patched,
            "suite_with_patch": line,
            "baseline_stable_tests_all_pass_with_patch": not missing,
            "commands": [f"cd {wt} && git apply _seed/{sn}/patch.diff", "pytest (BASELINE.json cmd) with junit comparison against stable_pass", f"PYTHONPATH={wt} /venv/bin/python _seed/{sn}/demo.py"],
        },
        "detected_by": {},
    }
    json.dump(meta, open(os.path.join(dst, "meta.json"), "w"), indent=1)
    print("  ACCEPTED ->", dst)
    return 0


if __name__ == "__main__":
    sys.exit(main())
