#!/venv/bin/python
"""Regenerates /verif/MANIFEST.json from the per-property modules that exist under mc/props."""
import importlib
import json
import os
import sys

VERIF = os.path.dirname(os.path.dirname(os.path.abspath(__file__)))
sys.path.insert(0, VERIF)

ENGINE = {
    "SEQ": "mc/seq.py",
    "SIM": "mc/sim.py",
    "ENUM": "mc/props (per-property enumerators)",
}

INFO = {
    "C01": ("SEQ", "4/C01", "Every event history (gradient-presence masks, hyper-parameter edits) up to the stated depth is executed on the real optimizer for a bounded product of configurations and every state after every step is compared with an independent float64 reference model of the documented update rule; two-group optimizers are compared bitwise with independent optimizers.", "data values come from fixed alphabets; tolerances K*u*scale (DESIGN 2); float64 eigh as root oracle"),
    "C02": ("SEQ", "4/C02", "All mask histories up to the stated depth x grafting target x hyper-parameter alphabet are run on the real optimizer next to the corresponding torch.optim optimizer (warm-up equality) and per-block norm/direction twins after the start step.", "torch.optim.{SGD,Adagrad,RMSprop,Adam,AdamW} are the oracle; identical-formulation range only"),
    "C03": ("SEQ", "4/C03", "All histories up to the stated depth x eigenvector method x dtype pair x config deviations on the real optimizer; every stored basis is checked for orthonormality/diagonalisation/orthogonal-iteration staircase and the step against a float64 'Adam in the stored basis' reference.", "bases are taken from the implementation state and validated separately; degenerate eigenspaces only checked for diagonalisation"),
    "C04": ("SEQ", "4/C04", "Every gradient-presence sequence up to the stated depth over 3 parameters (equal-shaped blocks) x configurations is executed; absent parameters/state must be bit-identical, present ones must follow the reference with distinct gradient streams per block.", "bitwise comparison of optimizer.state tensors; reference model for present blocks"),
    "C05": ("ENUM", "4/C05", "All shapes of order 0..4 up to the dim bound x all thresholds x merge on/off are pushed through the real Distributor with arange contents, so tiling/ordering/view-ness is decided exactly; blocked vs pre-split optimizers are run over all mask histories.", "index-set oracle computed from arange contents; few-ulp comparison for the invariance part"),
    "C06": ("SIM", "4/C06", "The real DDPDistributor inside the real optimizer runs on W simulated ranks (torch threaded process group with harness-owned rendezvous and scheduler); all mask histories x all rank interleavings at collective points up to the preemption bound are explored and compared with the serial optimizer (with the communicated quantity rounded), replica bit-identity, trace equality and deadlock freedom.", "the transport is a model (rendezvous semantics; no real gloo/NCCL); the scheduler owns Collective.join and the store barrier"),
    "C07": ("SIM", "4/C07", "All contiguous shard ranges / flat-parameter chunkings of all small shapes are given to the real FSDP distributor and compared with the serial optimizer on reference-recovered sub-tensors; HSDP meshes are explored on simulated ranks with all schedules up to the preemption bound.", "shard boundaries modelled by FSDPParameterMetadata; conformance of the boundary model checked on real FSDP modules"),
    "C08": ("SIM", "4/C08", "Real DTensor parameters on real 1-D/2-D device meshes over simulated ranks: all shapes x shard counts x mask histories (x schedules for HybridShard) against the serial optimizer on the local shard.", "DTensor.from_local(run_check=False) builds the shards; transport as in C06"),
    "C09": ("SEQ", "4/C09", "For every history up to the stated depth and EVERY stop point k the run is cut, saved through distributed_state_dict + torch.save/load, restored into a fresh optimizer and continued; parameters and all state must be bit-identical to the uninterrupted run; every single-entry deletion of the saved dict must raise.", "torch.save/torch.load round trip; bitwise comparison"),
    "C10": ("ENUM", "4/C10", "Complete grid size x spectrum family x basis family x scale x root x epsilon x dtype x solver configuration on the real matrix_inverse_root against a float64/50-digit spectral oracle with the error bound stated in the property.", "accuracy established on the grid only; constant C frozen in the module"),
    "C11": ("ENUM", "4/C11", "Complete grid of degenerate spectra (zero, rank-deficient, slightly negative) x bases x roots x dtypes; structural invariants (finite, symmetric, PD, eigenvalue cap, commuting, equivariance) and must-raise for all small non-square/non-2D shapes.", "grid only"),
    "C12": ("ENUM", "4/C12", "Complete grid spectra x estimates x QR iterations/tolerances x dtypes on the real matrix_eigenvectors; orthonormality, diagonalisation, ordering, staircase test of the orthogonal-iteration update, fixed point.", "grid only; degenerate subspaces: only 'still an orthonormal eigenbasis'"),
    "C13": ("SEQ", "4/C13", "The matrix routine is replaced by a fault injector; EVERY per-factor success/failure/NaN outcome script x EVERY mask history up to the stated depth x tolerance x frequency x Shampoo/SOAP is executed through optimizer.step() and compared with the per-block consecutive-failure counter model.", "fault injector monkey-patches shampoo_preconditioner_list.matrix_inverse_root/matrix_eigenvectors"),
    "C14": ("ENUM", "4/C14", "All block-size sequences over the alphabet up to the stated length x group sizes x dtype sizes x the three code copies against greedy-validity, brute-force optimum (4/3), load gap and buffer geometry oracles; state placement on simulated ranks.", "private methods _distribute_buffer_sizes/_split_local_dist_buffers are the anchors"),
    "C15": ("ENUM", "4/C15", "Every (shape,start,end) of the bounded space is executed on both copies of the real recovery routine and compared with a DP reference for the minimum slab cover; view-ness by storage pointer/offset.", "exhaustive up to the numel bound only"),
    "C16": ("ENUM", "4/C16", "All nested dict structures up to the node bound over an adversarial key alphabet through flatten/unflatten, and all small OptimizerModule object graphs through state_dict/load_state_dict.", "key alphabet fixed; structure bound stated in evidence"),
    "C17": ("ENUM", "4/C17", "All 1- and 2-deviations from valid baselines over boundary/interior/outside/NaN values per hyper-parameter against an acceptance table transcribed from the statement.", "acceptance table is a transcription of the property statement"),
    "C18": ("SEQ", "4/C18", "Histories across warm-up/refresh/mask changes x branch-covering configurations x {eager, aot_eager} x shape modes on the compiled optimizer vs the uncompiled twin after every step, with dynamo frame counters as non-vacuity guard.", "inductor backend not claimed (no compiler toolchain offline)"),
}


def main():
    checks, na = [], []
    for pid, (eng, ref, text, note) in INFO.items():
        path = os.path.join(VERIF, "mc", "props", pid.lower() + ".py")
        if not os.path.exists(path):
            na.append({"property_id": pid, "reason": "check not built yet in this session (work in progress; see DESIGN.md section 4/" + pid + ")"})
            continue
        mod = importlib.import_module(f"mc.props.{pid.lower()}")
        checks.append(
            {
                "property_id": pid,
                "quick_cmd": f"/venv/bin/python -m mc.run {pid} --tier quick",
                "thorough_cmd": f"/venv/bin/python -m mc.run {pid} --tier thorough",
                "evidence_file": f"/verif/evidence/{pid}.json",
                "replay_cmd_template": f"/venv/bin/python -m mc.run {pid} --replay {{path}}",
                "engine": eng,
                "level_claimed": {"category": "model_checking", "text": text, "design_ref": "DESIGN.md section " + ref},
                "level_note": note,
                "technique": getattr(mod, "TECHNIQUE", "bounded exhaustive exploration on the implementation"),
            }
        )
    hooks_commits = []
    man = {
        "version": 1,
        "setup_cmd": "/venv/bin/python -m mc.selftest --setup",
        "hooks": {
            "guard": "OPTIMIZERS_VERIF",
            "enable": "no source hooks: all seams are harness-side monkey patches applied at run time (fault injector, threaded process-group transport, per-rank device-mesh cache); OPTIMIZERS_VERIF=1 is set by the harness for completeness",
            "baseline_off_cmd": "cd /repo && /venv/bin/python -m pytest -ra -q -p no:cacheprovider --timeout=900 --continue-on-collection-errors",
            "source_commits": hooks_commits,
            "add_only": True,
        },
        "engines": [
            {"name": "SEQ", "path": "mc/seq.py", "serves_properties": [p for p, v in INFO.items() if v[0] == "SEQ"], "kind_free_text": "explicit exploration of all event histories (masks, hyper-parameter edits, faults, save/restore) on the real optimizer, replayed from scratch per history, against float64 reference models"},
            {"name": "SIM", "path": "mc/sim.py", "serves_properties": [p for p, v in INFO.items() if v[0] == "SIM"], "kind_free_text": "stateless preemption-bounded exploration of rank interleavings at collective points: real torch.distributed front end + real distributors on simulated ranks, harness-owned transport and cooperative scheduler"},
            {"name": "ENUM", "path": "mc/props", "serves_properties": [p for p, v in INFO.items() if v[0] == "ENUM"], "kind_free_text": "bounded-exhaustive enumeration of inputs of pure routines against independent references"},
        ],
        "checks": checks,
        "not_applicable": na,
        "notes": "Fixes of genuine defects are separate 'fix:' commits in /repo (see known_findings.json 'fixed' list and DESIGN.md section 5). Replays are written under /verif/replays/<ID>/.",
    }
    with open(os.path.join(VERIF, "MANIFEST.json"), "w") as f:
        json.dump(man, f, indent=1)
    print(f"MANIFEST.json: {len(checks)} checks, {len(na)} not_applicable")


if __name__ == "__main__":
    main()
