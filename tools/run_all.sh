#!/bin/bash
# runs every registered check (default: quick tier) on the current /repo tree; prints rc and wall time per check
TIER=${1:-quick}
cd "$(dirname "$0")/.."
for id in C01 C02 C03 C04 C05 C06 C07 C08 C09 C10 C11 C12 C13 C14 C15 C16 C17 C18; do
  s=$(date +%s.%N)
  out=$(/venv/bin/python -m mc.run $id --tier $TIER 2>&1)
  rc=$?
  e=$(date +%s.%N)
  printf "%s rc=%d wall=%.1fs %s\n" $id $rc $(echo "$e - $s" | bc) "$(echo "$out" | grep -c '^VIOLATION') violations; $(echo "$out" | tail -1 | cut -c1-160)"
done
