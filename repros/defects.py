"""Plain (explorer-free) replays of the genuine defects found by the model checker.

Each function returns None when the property holds and a string describing the
violation otherwise.  `python repros/defects.py` prints one line per defect and
exits 1 if any of them still reproduces on /repo's working tree.

D1 (C01)  filtered gradient overwritten in place (SGD grafting, beta3 == beta1, no bias correction)
D2 (C03)  SOAP/QR with parameter dtype != preconditioner dtype fails every refresh after the first
D3 (C09)  checkpoint of a block without Kronecker factors cannot be loaded
D4 (C11)  1x1 slightly-negative input -> NaN inverse root
D5 (C13)  failure counter is lost when the gradient mask changes
D9 (C04)  momentum schedule through zero leaves a stale masked momentum list (cross-wired buffers)
D6 (C16)  module state with a tensor-free sequence element cannot be restored from a flattened checkpoint
"""
import io
import logging
import sys
from fractions import Fraction

import torch

logging.disable(logging.CRITICAL)

from distributed_shampoo.distributed_shampoo import DistributedShampoo
from distributed_shampoo.shampoo_types import (
    EigenvalueCorrectedShampooPreconditionerConfig,
    SGDGraftingConfig,
    ShampooPreconditionerConfig,
)
from matrix_functions import matrix_inverse_root
from matrix_functions_types import QRConfig


def d1():
    p = torch.nn.Parameter(torch.tensor([[1.0, -2.0], [0.5, 1.5]]))
    opt = DistributedShampoo(
        [p], lr=0.5, betas=(0.5, 1.0), epsilon=1e-2, momentum=0.0,
        precondition_frequency=1, start_preconditioning_step=3,
        use_bias_correction=False, grafting_config=SGDGraftingConfig(),
    )
    g = torch.tensor([[1.0, 2.0], [-1.0, 0.5]])
    p.grad = g.clone()
    opt.step()
    ema = opt.state[p]["block_0"]["filtered_grad"]
    want = 0.5 * g  # beta1 * 0 + (1 - beta1) * g
    if not torch.equal(ema.flatten(), want.flatten()):
        return f"filtered_grad after step 1 is {ema.tolist()} instead of {want.tolist()}"
    return None


def d2():
    p = torch.nn.Parameter(torch.tensor([[1.0, -2.0, 0.5], [0.5, 1.5, -1.0]], dtype=torch.bfloat16))
    opt = DistributedShampoo(
        [p], lr=0.125, betas=(0.0, 0.5), epsilon=1e-2,
        precondition_frequency=1, start_preconditioning_step=1,
        preconditioner_dtype=torch.float32,
        preconditioner_config=EigenvalueCorrectedShampooPreconditionerConfig(
            amortized_computation_config=QRConfig(), num_tolerated_failed_amortized_computations=1),
    )
    try:
        for t in range(4):
            p.grad = torch.tensor([[1.0, 2.0, -1.0], [-1.0, 0.5, 2.0]], dtype=torch.bfloat16) * (1 + t)
            opt.step()
    except ValueError as e:
        return f"step {t + 1} raised {str(e)[:90]}"
    return None


def d3():
    def build():
        p = torch.nn.Parameter(torch.tensor(1.5))
        q = torch.nn.Parameter(torch.tensor([[1.0, -2.0], [0.5, 1.5]]))
        opt = DistributedShampoo(
            [p, q], lr=0.5, betas=(0.5, 1.0), epsilon=1e-2, momentum=0.5,
            precondition_frequency=1, start_preconditioning_step=1, use_merge_dims=False)
        return p, q, opt
    p, q, opt = build()
    p.grad = torch.tensor(2.0)
    q.grad = torch.ones(2, 2)
    opt.step()
    sd = opt.distributed_state_dict(key_to_param=iter([("p", p), ("q", q)]))
    buf = io.BytesIO()
    torch.save(sd, buf)
    buf.seek(0)
    sd = torch.load(buf, weights_only=False)
    p2, q2, opt2 = build()
    try:
        opt2.load_distributed_state_dict(sd, key_to_param=iter([("p", p2), ("q", q2)]))
    except KeyError as e:
        return f"load raised KeyError({e})"
    return None


def d4():
    x = matrix_inverse_root(torch.tensor([[-1e-3]]), root=Fraction(2), epsilon=1e-12)
    if not torch.isfinite(x).all():
        return f"matrix_inverse_root([[-1e-3]], root=2, eps=1e-12) = {x.tolist()}"
    return None


def d5():
    import distributed_shampoo.utils.shampoo_preconditioner_list as spl
    real = spl.matrix_inverse_root

    def failing(A, **kw):
        raise RuntimeError("injected")

    p = torch.nn.Parameter(torch.tensor([[1.0, -2.0], [0.5, 1.5]]))
    q = torch.nn.Parameter(torch.tensor([[1.0, 2.0], [0.5, -1.5]]))
    opt = DistributedShampoo(
        [p, q], lr=0.125, betas=(0.0, 1.0), epsilon=1e-2,
        precondition_frequency=1, start_preconditioning_step=1,
        preconditioner_config=ShampooPreconditionerConfig(num_tolerated_failed_amortized_computations=1),
    )
    spl.matrix_inverse_root = failing
    try:
        for t in range(6):
            p.grad = torch.ones(2, 2)
            q.grad = torch.ones(2, 2) if t % 2 == 0 else None
            try:
                opt.step()
            except ValueError:
                if t == 1:
                    return None  # second consecutive failing refresh of block p: must raise here
                return f"raised at refresh {t + 1} instead of refresh 2"
            else:
                if t == 1:
                    # tolerance 1: two consecutive failing refreshes of p must raise
                    continue_ = True
        return "block failed on 6 consecutive refreshes with tolerance 1 and nothing was raised"
    finally:
        spl.matrix_inverse_root = real


def d6():
    from distributed_shampoo.utils.shampoo_checkpoint_utils import extract_state_dict_content, flatten, unflatten, update_param_state_dict_object
    from optimizer_modules import OptimizerModule

    def mk(v):
        m = OptimizerModule()
        m.seq = [(), torch.full((2,), v)]
        return m
    src, dst = mk(3.0), mk(0.0)
    saved = flatten(extract_state_dict_content({"blk": {"mod": src}}))
    try:
        update_param_state_dict_object({"blk": {"mod": dst}}, unflatten(saved))
    except KeyError as e:
        return f"restoring a module holding [(), tensor] from its flattened state raised KeyError({e})"
    return None if torch.equal(dst.seq[1], src.seq[1]) else "value not restored"


def d9():
    def mk():
        ps = [torch.nn.Parameter(torch.tensor([[1.0, -2.0], [0.5, 1.5]]) * (i + 1)) for i in range(3)]
        return ps, DistributedShampoo(ps, lr=0.25, betas=(0.0, 1.0), epsilon=1e-1, momentum=0.5, precondition_frequency=1, start_preconditioning_step=1, use_merge_dims=False)
    ps, opt = mk()
    g = lambda i, t: torch.tensor([[1.0, 2.0], [-1.0, 0.5]]) * (1 + i + t)
    masks = [(0, 1, 0), (1, 0, 0), (1, 0, 0)]
    for t, m in enumerate(masks):
        if t == 1:
            opt.param_groups[0]["momentum"] = 0.0
        if t == 2:
            opt.param_groups[0]["momentum"] = 0.5
        for i, p in enumerate(ps):
            p.grad = g(i, t) if m[i] else None
        before = opt.state[ps[1]]["block_0"]["momentum"].clone()
        try:
            opt.step()
        except RuntimeError as e:
            return f"step {t} raised {str(e)[:80]}"
        if not m[1] and not torch.equal(opt.state[ps[1]]["block_0"]["momentum"], before):
            return f"step {t}: momentum buffer of parameter 1 changed although it has no gradient"
    return None


ALL = {"D9": d9, "D6": d6, "D1": d1, "D2": d2, "D3": d3, "D4": d4, "D5": d5}

if __name__ == "__main__":
    import distributed_shampoo
    bad = 0
    for name, fn in ALL.items():
        if len(sys.argv) > 1 and name not in sys.argv[1:]:
            continue
        r = fn()
        print(f"{name}: {'ok' if r is None else 'REPRODUCED: ' + r}")
        bad += r is not None
    sys.exit(1 if bad else 0)
