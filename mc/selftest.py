"""Setup / self-test of the harness.  `--setup` only checks that the tool chain is usable offline
(nothing needs building: the library is an editable install bound to /repo)."""
import json
import os
import sys

from . import common


def main():
    torch = common.bind_repo()
    os.makedirs(os.path.join(common.VERIF, "evidence"), exist_ok=True)
    os.makedirs(os.path.join(common.VERIF, "replays"), exist_ok=True)
    man = json.load(open(os.path.join(common.VERIF, "MANIFEST.json")))
    print(f"setup ok: torch {torch.__version__}, {len(man['checks'])} checks registered, library bound to {common.REPO}")
    if "--setup" in sys.argv:
        return 0
    from . import selftests

    return selftests.run_all()


if __name__ == "__main__":
    sys.exit(main())
