"""Entry point:  python -m mc.run <ID> [--tier quick|thorough] [--replay file] [--workers N]

Contract (MANIFEST.json): exit 0 = property held on everything explored; exit 1 plus a line
`VIOLATION property=<id> replay=<path>` = violation found (and re-executed from its replay file);
exit 2 = harness error (never a verdict).  Evidence is rewritten on every run.
"""
from __future__ import annotations

import argparse
import importlib
import json
import os
import sys
import time

from . import common


def main(argv=None):
    ap = argparse.ArgumentParser()
    ap.add_argument("pid")
    ap.add_argument("--tier", default=os.environ.get("VERIF_TIER", "quick"), choices=["quick", "thorough"])
    ap.add_argument("--replay")
    ap.add_argument("--workers", type=int)
    ap.add_argument("--max-report", type=int, default=8)
    a = ap.parse_args(argv)
    pid = a.pid.upper()
    seed = int(os.environ.get("VERIF_SEED", "0") or 0)
    os.environ["PYTHONHASHSEED"] = "0"
    modname = f"mc.props.{pid.lower()}"
    mod = importlib.import_module(modname)
    common.bind_repo()

    if a.replay:
        payload = json.load(open(a.replay))
        msgs = mod.replay(payload["case"])
        if msgs:
            for m in msgs[:5]:
                print("  ", m)
            print(f"VIOLATION property={pid} replay={a.replay}")
            return 1
        print(f"replay {a.replay}: property holds on this case")
        return 0

    t0 = time.time()
    import glob

    for old in glob.glob(os.path.join(common.VERIF, "replays", pid, f"{a.tier}_*.json")):
        os.remove(old)  # replay files of earlier runs of this tier are stale
    units = list(mod.work(a.tier, seed))
    print(f"[{pid}] tier={a.tier} seed={seed} work units={len(units)} workers={a.workers or common.nworkers()}", flush=True)
    evals = transitions = 0
    states, outcomes, nontriv = set(), set(), set()
    nontriv_count = 0
    violations, samples, stats = [], [], {}
    harness_errors = []
    for r in common.run_parallel(modname, "run_unit", units, workers=a.workers, progress=max(1, len(units) // 8)):
        if "harness_error" in r:
            harness_errors.append(r)
            continue
        evals += r.get("evals", 0)
        transitions += r.get("transitions", 0)
        states.update(r.get("states", ()))
        outcomes.update(r.get("outcomes", ()))
        nontriv.update(r.get("nontrivial", ()))
        nontriv_count += r.get("nontrivial_count", 0)
        violations.extend(r.get("violations", ()))
        if len(samples) < 6:
            samples.extend(r.get("samples", ())[: 6 - len(samples)])
        for k, v in r.get("stats", {}).items():
            if k.startswith("max_"):
                stats[k] = max(stats.get(k, v), v)
            elif k.startswith("min_"):
                stats[k] = min(stats.get(k, v), v)
            elif isinstance(v, list):
                stats[k] = sorted(set(stats.get(k, [])) | set(v))[:64]
            else:
                stats[k] = stats.get(k, 0) + v
    if harness_errors:
        print(f"HARNESS ERROR in {len(harness_errors)} work unit(s); first:\n{harness_errors[0]['harness_error']}\n arg={harness_errors[0]['arg']}")
        return 2

    # ---- triage violations: known findings vs new
    findings = common.Findings().open_for(pid)
    sig = getattr(mod, "finding_signature", None)
    known_hit, fresh = {}, []
    for v in violations:
        s = sig(v["case"], v["msg"]) if sig else None
        hit = next((f for f in findings if s is not None and f["signature"] == s), None)
        if hit:
            known_hit.setdefault(hit["id"], (hit, 0))
            known_hit[hit["id"]] = (hit, known_hit[hit["id"]][1] + 1)
        else:
            fresh.append(v)
    for fid, (hit, n) in sorted(known_hit.items()):
        print(f"KNOWN-FINDING: property={pid} {fid}: {hit['what']} ({n} explored cases hit it)")

    rc = 0
    reported = 0
    fresh.sort(key=lambda v: (len(json.dumps(v["case"], default=str)), json.dumps(v["case"], default=str, sort_keys=True)))
    seen_msgs = set()
    for v in fresh:
        key = v.get("kind") or v["msg"][:60]
        if key in seen_msgs and reported >= 3:
            continue
        seen_msgs.add(key)
        if reported >= a.max_report:
            break
        # re-execute from the replay payload before reporting
        msgs = mod.replay(json.loads(json.dumps(v["case"], default=str)))
        if not msgs:
            print(f"HARNESS ERROR: violation did not reproduce on replay: {v['msg']}\n case={json.dumps(v['case'], default=str)[:600]}")
            return 2
        path = common.write_replay(pid, f"{a.tier}_{reported:02d}", {"property": pid, "case": v["case"], "msg": v["msg"], "replay_msgs": msgs[:5]})
        print(f"  {v['msg'][:400]}")
        print(f"VIOLATION property={pid} replay={path}")
        reported += 1
        rc = 1
    if fresh and reported < len(fresh):
        print(f"  ({len(fresh)} violating cases in total; {reported} reported)")

    wall = time.time() - t0
    if not nontriv_count:
        nontriv_count = len(nontriv)
    cov = {
        "states": len(states),
        "transitions": transitions,
        "traces_validated_against_impl": evals,
        "evaluations": evals,
        "distinct_nontrivial": nontriv_count,
        "distinct_outcomes": len(outcomes),
        "rule": getattr(mod, "RULE", ""),
        "samples": samples[:6] or ["(none)"],
        "exhaustive": bool(getattr(mod, "EXHAUSTIVE", True)),
        "bounds": mod.bounds(a.tier) if hasattr(mod, "bounds") else {},
        "technique": getattr(mod, "TECHNIQUE", ""),
        "trusted_base": getattr(mod, "TRUSTED", []),
        "stats": stats,
        "known_findings_hit": {k: n for k, (_, n) in known_hit.items()},
        "work_units": len(units),
    }
    common.write_evidence(pid, a.tier, seed, cov, wall, len(fresh), getattr(mod, "ASSUMPTIONS", []))
    print(
        f"[{pid}] executions={evals} states={len(states)} transitions={transitions} outcomes={len(outcomes)} "
        f"nontrivial={nontriv_count} violations={len(fresh)} known={sum(n for _, n in known_hit.values())} wall={wall:.1f}s stats={json.dumps(stats, default=str)[:600]}"
    )
    return rc


if __name__ == "__main__":
    sys.exit(main())
