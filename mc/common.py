"""Shared plumbing of the model-checking harness: binding to /repo, worker pool,
state digests, tolerances, evidence files, replay files and known findings.

Nothing in here decides a property; it only runs the per-property explorers
(mc/props/cNN.py) and reports what they covered.
"""
from __future__ import annotations

import hashlib
import json
import os
import sys
import time
import traceback
from concurrent.futures import ProcessPoolExecutor, as_completed
import multiprocessing as mp

for _v in ("OMP_NUM_THREADS", "OPENBLAS_NUM_THREADS", "MKL_NUM_THREADS", "NUMEXPR_NUM_THREADS"):
    os.environ.setdefault(_v, "1")  # one BLAS thread per worker process (must precede numpy/torch import)
os.environ.setdefault("PYTHONHASHSEED", "0")

VERIF = os.path.dirname(os.path.dirname(os.path.abspath(__file__)))
REPO = "/repo"
GUARD_ENV = "OPTIMIZERS_VERIF"

# --------------------------------------------------------------------------- binding


def bind_repo():
    """Import the library and make sure it is /repo's working tree that got imported."""
    os.environ.setdefault(GUARD_ENV, "1")
    import logging

    logging.disable(logging.CRITICAL)
    import torch

    torch.set_num_threads(1)
    import distributed_shampoo  # noqa
    import matrix_functions  # noqa
    import optimizer_modules  # noqa
    import distributed_shampoo.distributed_shampoo as ds  # noqa

    for m in (distributed_shampoo, matrix_functions, optimizer_modules):
        f = os.path.realpath(m.__file__)
        if not f.startswith(REPO + "/"):
            raise SystemExit(f"HARNESS ERROR: {m.__name__} imported from {f}, not from {REPO}")
    return torch


def _worker_init():
    os.environ["PYTHONHASHSEED"] = "0"
    bind_repo()
    import warnings

    warnings.filterwarnings("ignore")


# --------------------------------------------------------------------------- pool


def _call(modname, fname, arg):
    import importlib

    mod = importlib.import_module(modname)
    try:
        return getattr(mod, fname)(arg)
    except Exception:
        return {"harness_error": traceback.format_exc(), "arg": repr(arg)[:400]}


def nworkers():
    n = os.environ.get("VERIF_WORKERS")
    if n:
        return max(1, int(n))
    return max(1, min(16, (os.cpu_count() or 2)))


def run_parallel(modname, fname, args, workers=None, progress=None):
    """Map mod.fname over args in spawned worker processes; yields results as completed."""
    args = list(args)
    workers = workers or nworkers()
    if workers == 1 or len(args) <= 1:
        _worker_init()
        for a in args:
            yield _call(modname, fname, a)
        return
    ctx = mp.get_context("spawn")
    with ProcessPoolExecutor(max_workers=min(workers, len(args)), mp_context=ctx, initializer=_worker_init) as ex:
        futs = [ex.submit(_call, modname, fname, a) for a in args]
        done = 0
        for f in as_completed(futs):
            done += 1
            if progress and done % progress == 0:
                print(f"  .. {done}/{len(futs)} work units", flush=True)
            yield f.result()


def chunks(seq, n):
    seq = list(seq)
    for i in range(0, len(seq), n):
        yield seq[i : i + n]


# --------------------------------------------------------------------------- digests


def h64(*parts) -> int:
    m = hashlib.blake2b(digest_size=8)
    for p in parts:
        if isinstance(p, (bytes, bytearray, memoryview)):
            m.update(p)
        else:
            m.update(repr(p).encode())
        m.update(b"|")
    return int.from_bytes(m.digest(), "big")


def tensor_bytes(t):
    import torch

    t = t.detach()
    if hasattr(t, "to_local"):
        t = t.to_local()
    t = t.contiguous().cpu()
    if t.dtype == torch.bfloat16:
        t = t.view(torch.int16)
    if t.dtype == torch.bool:
        t = t.to(torch.uint8)
    return t.numpy().tobytes()


def digest_obj(o, _depth=0) -> int:
    """Canonical digest of a nest of dict/list/tuple/tensor/scalars/OptimizerModule-like objects."""
    import torch

    if isinstance(o, torch.Tensor):
        return h64("T", str(o.dtype), tuple(o.shape), tensor_bytes(o))
    if isinstance(o, dict):
        return h64("D", sorted((repr(k), digest_obj(v, _depth + 1)) for k, v in o.items()))
    if isinstance(o, (list, tuple)):
        return h64("L", [digest_obj(v, _depth + 1) for v in o])
    if isinstance(o, (int, float, str, bool, type(None))):
        return h64("S", o)
    if hasattr(o, "__dict__") and _depth < 12:
        return h64("O", type(o).__name__, digest_obj({k: v for k, v in vars(o).items()}, _depth + 1))
    return h64("R", repr(o))


# --------------------------------------------------------------------------- tolerances

K_REF = {"f32": 256.0, "f64": 256.0, "bf16": 64.0}
UNIT = {"f32": 2.0 ** -24, "f64": 2.0 ** -53, "bf16": 2.0 ** -9, "f16": 2.0 ** -11}


def dtype_of(name):
    import torch

    return {"f32": torch.float32, "f64": torch.float64, "bf16": torch.bfloat16, "f16": torch.float16}[name]


def name_of(dtype):
    import torch

    return {torch.float32: "f32", torch.float64: "f64", torch.bfloat16: "bf16", torch.float16: "f16"}[dtype]


def coarsest(*names):
    return max(names, key=lambda n: UNIT[n])


# --------------------------------------------------------------------------- evidence / findings / replays


class Findings:
    def __init__(self):
        p = os.path.join(VERIF, "known_findings.json")
        self.entries = json.load(open(p))["findings"] if os.path.exists(p) else []

    def open_for(self, pid):
        return [e for e in self.entries if e["property"] == pid and e.get("status") == "open"]


def write_replay(pid, name, payload):
    d = os.path.join(VERIF, "replays", pid)
    os.makedirs(d, exist_ok=True)
    path = os.path.join(d, f"{name}.json")
    with open(path, "w") as f:
        json.dump(payload, f, indent=1, sort_keys=True, default=str)
    return path


def write_evidence(pid, tier, seed, coverage, wall_s, violations, assumptions, level="model_checking"):
    d = os.path.join(VERIF, "evidence")
    os.makedirs(d, exist_ok=True)
    ev = {
        "property_id": pid,
        "tier": tier,
        "seed": int(seed),
        "level": level,
        "coverage": coverage,
        "assumptions": assumptions,
        "wall_s": round(float(wall_s), 2),
        "violations": int(violations),
    }
    path = os.path.join(d, f"{pid}.json")
    tmp = path + ".tmp"
    with open(tmp, "w") as f:
        json.dump(ev, f, indent=1, default=str)
    os.replace(tmp, path)
    return path


def jsonable(x):
    import torch

    if isinstance(x, torch.Tensor):
        return x.tolist()
    if isinstance(x, dict):
        return {str(k): jsonable(v) for k, v in x.items()}
    if isinstance(x, (list, tuple)):
        return [jsonable(v) for v in x]
    if isinstance(x, (int, float, str, bool, type(None))):
        return x
    return repr(x)
