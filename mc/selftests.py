"""Engine self-tests (python -m mc.selftest): the explorers must FIND planted problems in toy programs and be
deterministic on the real code, before any silence of a check means anything."""
from __future__ import annotations

import sys

from . import common, seq, sim


def t_sim_finds_race():
    """toy: two ranks all-reduce-free 'lost update' through a shared list; outcome depends on the interleaving at
    the collective points -> the explorer must see > 1 outcome with deviation bound 1 and exactly 1 with bound 0."""
    import torch
    import torch.distributed as dist

    shared = {}

    def fn(rank, W):
        box = shared.setdefault("box", [0])
        t = torch.zeros(1)
        v = box[0]  # read
        dist.all_reduce(t)  # visible operation between read and write
        box[0] = v + 1 + rank  # write (lost update if the other rank wrote in between)
        dist.all_reduce(t)
        return box[0]

    def chk(s):
        out = tuple(s.results)
        shared.clear()
        return out

    r0 = sim.explore(2, fn, 0, chk)
    r1 = sim.explore(2, fn, 2, chk)
    assert len(r0["outcomes"]) == 1, r0
    assert len(r1["outcomes"]) > 1, f"explorer did not find the planted race: {r1}"
    return f"planted race: {r1['executions']} schedules, {len(r1['outcomes'])} outcomes"


def t_sim_finds_deadlock():
    import torch
    import torch.distributed as dist

    def fn(rank, W):
        t = torch.zeros(1)
        if rank == 0:
            dist.all_reduce(t)  # rank 1 never joins
        return rank

    s = sim.Sched(2).run(fn)
    assert s.deadlock is not None and 0 in s.deadlock, s.deadlock
    return f"planted deadlock reported: {s.deadlock}"


def t_sim_replay_deterministic():
    from . import distrun

    cfg = seq.cfg_with(betas=[0.5, 0.5], momentum=0.5, graft=["adam", 0.5, 1e-1], lr=0.25)
    hist = [["step", [1, 1, 1]], ["step", [1, 0, 1]]]
    fn = distrun.ddp_program(cfg, hist, "BF16", 2, True)
    a = sim.Sched(2).run(fn, (1, 0, 1))
    b = sim.Sched(2).run(fn, (1, 0, 1))
    assert [p[1] for p in a.points] == [p[1] for p in b.points]
    assert a.trace == b.trace
    da = common.digest_obj([x for r in a.results for x in r["steps"]])
    db = common.digest_obj([x for r in b.results for x in r["steps"]])
    assert da == db
    try:
        sim.Sched(2).run(fn, (9,))
        raise AssertionError("out-of-range replay choice was accepted")
    except sim.HarnessError:
        pass
    return f"same schedule twice: identical traces ({len(a.points)} points) and bytes; bad prefix rejected"


def t_seq_deterministic():
    cfg = seq.cfg_with(betas=[0.5, 0.5], beta3=0.25, momentum=0.5, wd=0.5, graft=["adam", 0.5, 1e-1])
    hist = [["step", [1, 1, 1]], ["step", [0, 1, 1]], ["set", 0, "lr", 0.125], ["step", [1, 1, 0]]]
    a = seq.run_history_checked(cfg, hist)
    b = seq.run_history_checked(cfg, hist)
    assert a["digests"] == b["digests"] and not a["msgs"], a["msgs"]
    return f"same history twice: identical digests, err/tol {a['worst']:.3f}"


def t_reference_literals():
    """reference model against hand-computed literals (plain SGD-like Shampoo step on a 1-element block)."""
    import numpy as np
    from .refs.shampoo import RefOpt

    cfg = seq.cfg_with(shapes=[[1]], max_dim=4, betas=[0.0, 1.0], eps=0.25, lr=0.5, freq=1, start=1)
    r = RefOpt(cfg, [np.array([2.0])])
    r.step([np.array([3.0])])
    # L = 9, root 2 (order 1), X = (9 + 0.25)^(-1/2); p = 2 - 0.5 * 3 * X
    want = 2.0 - 0.5 * 3.0 * (9.25 ** -0.5)
    assert abs(r.params[0][0] - want) < 1e-6, (r.params[0][0], want)
    from .refs.blocks import ref_blocks, ref_merge

    assert ref_merge((1, 2, 3, 1, 4), 6) == (6, 4)
    assert [b[0] for b in ref_blocks((5, 3), 2, False)[1]] == [(2, 2), (2, 1), (2, 2), (2, 1), (1, 2), (1, 1)]
    return "reference literals ok"


def t_reference_detects_planted_error():
    """a reference with a planted error (wrong beta3) must disagree with the real optimizer."""
    cfg = seq.cfg_with(betas=[0.5, 0.5], beta3=0.25)
    import copy

    params, opt = seq.build(cfg)
    bad = copy.deepcopy(cfg)
    bad["beta3"] = 0.5
    ref = seq.RefOpt(bad, [seq.to_np(p.data) for p in params])
    for t in range(2):
        seq.set_grads(params, cfg, t, [1, 1, 1])
        opt.step()
        ref.step(seq.ref_grads(cfg, t, [1, 1, 1]))
    msgs, worst = seq.compare_to_ref(opt, params, ref, cfg)
    assert msgs and worst > 100, (msgs, worst)
    return f"planted reference error seen with err/tol {worst:.0f}"


TESTS = [t_reference_literals, t_reference_detects_planted_error, t_seq_deterministic, t_sim_finds_race, t_sim_finds_deadlock, t_sim_replay_deterministic]


def run_all():
    bad = 0
    for t in TESTS:
        try:
            print(f"[selftest] {t.__name__}: {t()}")
        except Exception as e:
            import traceback

            traceback.print_exc()
            print(f"[selftest] {t.__name__}: FAILED {e}")
            bad += 1
    return 1 if bad else 0
