"""SEQ engine: build the real optimizer from a JSON-able configuration, replay an event history on it
(from scratch - live optimizers do not deep-copy), extract the user-visible state, and compare with the
float64 reference model after every transition.

Event alphabet:  ["step", mask]            mask = list of 0/1 per parameter (gradient present?)
                 ["set", group, key, val]  edit param_groups[group][key] (lr / weight_decay / momentum ...)
"""
from __future__ import annotations

import itertools
from math import prod

import numpy as np

from . import common
from .refs.shampoo import RefOpt, effective_group_hyper

WORST_NAME = [""]
UNDECIDED = [0]  # number of compare_to_ref calls in which the kappa-scaled bound exceeded TOL_CAP (comparison skipped)
TOL_CAP = 0.25  # a reference comparison looser than this would be vacuous

TABLE = np.array([0.5, -1.0, 1.5, 2.0, -0.5, 1.0, -1.5, -2.0])
PTABLE = np.array([0.25, -0.75, 1.25, 1.0, -0.25, 0.75, -1.25, -1.0])

DEFAULT = {
    "shapes": [[3, 2], [3, 2], [5]],
    "pdtype": "f32",
    "prec_dtype": "f32",
    "lr": 0.5,
    "betas": [0.0, 1.0],
    "beta3": -1.0,
    "eps": 1e-1,
    "momentum": 0.0,
    "dampening": 0.0,
    "wd": 0.0,
    "decoupled": True,
    "nesterov": False,
    "bias_corr": True,
    "max_dim": 3,
    "merge": True,
    "freq": 1,
    "start": 2,
    "inv_root_override": 0,
    "graft": None,
    "precond": ["shampoo", {}],
    "groups": None,
    "seed": 0,
    "grad_kind": "table",  # or "rank1_first" / "onehot_first"
    "gscale": 1.0,  # dyadic scale applied to every gradient
}


def cfg_with(**kw):
    c = {k: (list(v) if isinstance(v, list) else v) for k, v in DEFAULT.items()}
    c.update(kw)
    return c


# ----------------------------------------------------------------------------- data alphabets


def init_param(pidx, shape, seed):
    n = prod(shape) if len(shape) else 1
    i = np.arange(n)
    return PTABLE[(3 * pidx + 5 * i + (i * i) // 3 + seed) % 8].reshape(shape)


def grad_value(pidx, t, shape, seed, kind="table"):
    """Deterministic, loud, well conditioned gradients; distinct stream per parameter and step."""
    n = prod(shape) if len(shape) else 1
    if kind == "rank1_first" and t == 0 and len(shape) >= 2:
        vecs = [TABLE[(2 * pidx + 3 * d + 5 * np.arange(s) + seed) % 8] for d, s in enumerate(shape)]
        g = vecs[0]
        for v in vecs[1:]:
            g = np.multiply.outer(g, v)
        return g / (2.0 ** (len(shape) - 1))
    if kind == "zero_second" and pidx == 1 and t >= 1:
        return np.zeros(shape)  # present-but-all-zero gradient (must be treated as a gradient, not as absent)
    if kind == "onehot_first" and t == 0:
        g = np.zeros(n)
        g[(pidx + seed) % n] = TABLE[(pidx + seed) % 8]
        return g.reshape(shape)
    if kind == "twohot":
        # exactly two non-zero entries at every step: the factor of a 1-D block is sparse (a dense 2x2 block, as many
        # non-zeros as a diagonal would have) but not diagonal
        g = np.zeros(n)
        g[0] = TABLE[(pidx + 3 * t + seed) % 8]
        if n > 1:
            g[1] = TABLE[(pidx + 5 * t + 2 + seed) % 8]
        return g.reshape(shape)
    i = np.arange(n)
    return TABLE[(5 * pidx + 3 * t + 7 * i + ((i + 1) * (t + 2)) // 2 + (i * pidx) // 2 + seed) % 8].reshape(shape)


# ----------------------------------------------------------------------------- building the real optimizer


def make_graft(g):
    from distributed_shampoo.shampoo_types import AdaGradGraftingConfig, AdamGraftingConfig, RMSpropGraftingConfig, SGDGraftingConfig

    if g is None:
        return None
    if g[0] == "sgd":
        return SGDGraftingConfig()
    if g[0] == "adagrad":
        return AdaGradGraftingConfig(epsilon=g[1])
    if g[0] == "rmsprop":
        return RMSpropGraftingConfig(beta2=g[1], epsilon=g[2])
    if g[0] == "adam":
        return AdamGraftingConfig(beta2=g[1], epsilon=g[2])
    raise ValueError(g)


def make_precond(pc):
    from distributed_shampoo.shampoo_types import EigenvalueCorrectedShampooPreconditionerConfig, ShampooPreconditionerConfig
    from matrix_functions_types import CoupledHigherOrderConfig, CoupledNewtonConfig, EigenConfig, EighEigenvectorConfig, QRConfig

    kind, o = pc
    tol = o.get("tol", 3)
    ign = list(o.get("ignored", []))
    if kind == "shampoo":
        solver = o.get("solver", "eigen")
        if solver == "eigen":
            ac = EigenConfig(exponent_multiplier=o.get("exp_mult", 1.0), enhance_stability=o.get("enhance", False))
        elif solver == "newton":
            ac = CoupledNewtonConfig(max_iterations=o.get("iters", 100), tolerance=o.get("stol", 1e-10))
        elif solver == "higher":
            ac = CoupledHigherOrderConfig(max_iterations=o.get("iters", 100), tolerance=o.get("stol", 1e-10), order=o.get("order", 3))
        else:
            raise ValueError(solver)
        return ShampooPreconditionerConfig(amortized_computation_config=ac, num_tolerated_failed_amortized_computations=tol, ignored_dims=ign)
    if kind == "soap":
        if o.get("method", "eigh") == "eigh":
            ac = EighEigenvectorConfig()
        else:
            ac = QRConfig(max_iterations=o.get("iters", 1), tolerance=o.get("qtol", 1e-5))
        return EigenvalueCorrectedShampooPreconditionerConfig(amortized_computation_config=ac, num_tolerated_failed_amortized_computations=tol, ignored_dims=ign)
    raise ValueError(kind)


def ctor_kwargs(h, top=True):
    kw = dict(
        lr=h["lr"],
        betas=tuple(h["betas"]),
        beta3=h.get("beta3", -1.0),
        epsilon=h["eps"],
        momentum=h["momentum"],
        dampening=h["dampening"],
        weight_decay=h["wd"],
        max_preconditioner_dim=h["max_dim"],
        precondition_frequency=h["freq"],
        start_preconditioning_step=h["start"],
        inv_root_override=h["inv_root_override"],
        use_nesterov=h["nesterov"],
        use_bias_correction=h["bias_corr"],
        use_decoupled_weight_decay=h["decoupled"],
        grafting_config=make_graft(h["graft"]),
        use_merge_dims=h["merge"],
        preconditioner_dtype=common.dtype_of(h["prec_dtype"]),
        preconditioner_config=make_precond(h["precond"]),
    )
    return kw


GROUP_KEY = {
    "lr": "lr", "betas": "betas", "beta3": "beta3", "eps": "epsilon", "momentum": "momentum", "dampening": "dampening",
    "wd": "weight_decay", "max_dim": "max_preconditioner_dim", "freq": "precondition_frequency", "start": "start_preconditioning_step",
    "inv_root_override": "inv_root_override", "nesterov": "use_nesterov", "bias_corr": "use_bias_correction",
    "decoupled": "use_decoupled_weight_decay", "merge": "use_merge_dims",
}


def build(cfg, compile_cfg=None, distributed_config=None, params=None):
    """-> (params, optimizer). Parameters are fresh leaf tensors with deterministic values."""
    import torch
    from distributed_shampoo.distributed_shampoo import DistributedShampoo

    dt = common.dtype_of(cfg["pdtype"])
    if params is None:
        dts = [common.dtype_of(d) for d in cfg["pdtypes"]] if cfg.get("pdtypes") else [dt] * len(cfg["shapes"])  # mixed-precision parameter group
        params = [torch.nn.Parameter(torch.tensor(init_param(i, tuple(s), cfg["seed"]), dtype=dts[i]).reshape(tuple(s))) for i, s in enumerate(cfg["shapes"])]
    kw = ctor_kwargs(cfg)
    if cfg.get("groups"):
        groups = []
        for g in cfg["groups"]:
            d = {"params": [params[i] for i in g["params"]]}
            for k, v in g.get("over", {}).items():
                if k == "graft":
                    d["grafting_config"] = make_graft(v)
                elif k == "precond":
                    d["preconditioner_config"] = make_precond(v)
                elif k == "betas":
                    d["betas"] = tuple(v)
                else:
                    d[GROUP_KEY[k]] = v
            groups.append(d)
        arg = groups
    else:
        arg = params
    if compile_cfg is not None:
        kw["shampoo_pt2_compile_config"] = compile_cfg
    if distributed_config is not None:
        kw["distributed_config"] = distributed_config
    opt = DistributedShampoo(arg, **kw)
    return params, opt


def group_of(cfg, pidx):
    if not cfg.get("groups"):
        return 0
    for gi, g in enumerate(cfg["groups"]):
        if pidx in g["params"]:
            return gi
    raise KeyError(pidx)


def set_grads(params, cfg, t, mask):
    import torch

    for i, p in enumerate(params):
        if mask[i]:
            g = grad_value(i, t, tuple(p.shape), cfg["seed"], cfg.get("grad_kind", "table")) * cfg.get("gscale", 1.0)
            p.grad = torch.tensor(g, dtype=p.dtype).reshape(p.shape)
        else:
            p.grad = None


def ref_grads(cfg, t, mask):
    out = []
    for i, s in enumerate(cfg["shapes"]):
        if mask[i]:
            g = grad_value(i, t, tuple(s), cfg["seed"], cfg.get("grad_kind", "table")) * cfg.get("gscale", 1.0)
            if cfg["pdtype"] == "bf16":
                import torch

                g = torch.tensor(g, dtype=torch.bfloat16).double().numpy()
            out.append(np.asarray(g, dtype=np.float64).reshape(tuple(s)))
        else:
            out.append(None)
    return out


def apply_set(opt, ref, ev):
    _, gi, key, val = ev
    opt.param_groups[gi][GROUP_KEY[key]] = val
    if ref is not None:
        ref.groups[gi].h[key] = val


# ----------------------------------------------------------------------------- state extraction


def to_np(t):
    if hasattr(t, "to_local"):
        t = t.to_local()
    return t.detach().double().cpu().numpy()


def impl_block_state(opt, param, bkey):
    st = opt.state[param][bkey]
    out = {}
    sh = st.get("shampoo")
    if sh is not None:
        out["L"] = [to_np(x) for x in sh.factor_matrices]
        if hasattr(sh, "inv_factor_matrices"):
            out["X"] = [to_np(x) for x in sh.inv_factor_matrices]
        else:
            out["Q"] = [to_np(x) for x in sh.factor_matrices_eigenvectors]
            out["V"] = to_np(sh.corrected_eigenvalues)
    if "adagrad" in st:
        out["gacc"] = to_np(st["adagrad"])
    if "momentum" in st:
        out["mom"] = to_np(st["momentum"])
    if "filtered_grad" in st:
        out["filt"] = to_np(st["filtered_grad"])
    return out


def visible_digest(opt, params):
    """Digest of the user-visible projection: parameters, optimizer.state, param_groups (without params)."""
    parts = [common.digest_obj([p.data for p in params])]
    for p in params:
        parts.append(common.digest_obj(opt.state.get(p, {})))
    for g in opt.param_groups:
        parts.append(common.h64(sorted((k, repr(v)) for k, v in g.items() if k != "params")))
    return common.h64(parts)


def relerr(a, b, floor=0.0):
    a = np.asarray(a, dtype=np.float64)
    b = np.asarray(b, dtype=np.float64)
    if a.shape != b.shape:
        if a.size == b.size:
            a = a.reshape(b.shape)
        else:
            return float("inf"), 1.0
    if not (np.all(np.isfinite(a)) and np.all(np.isfinite(b))):
        return (0.0, 1.0) if np.array_equal(a, b, equal_nan=True) else (float("inf"), 1.0)
    scale = max(float(np.max(np.abs(b), initial=0.0)), float(np.max(np.abs(a), initial=0.0)), floor, 1e-30)
    return float(np.max(np.abs(a - b), initial=0.0)) / scale, scale


def compare_to_ref(opt, params, ref, cfg, tolscale=1.0, skip_bases=True):
    """-> (list of mismatch strings, max err/tol ratio). Compares parameters, every state tensor and the step."""
    msgs = []
    worst = 0.0
    pd, fd = cfg["pdtype"], cfg["prec_dtype"]
    cd = common.coarsest(pd, fd)
    tol_f = common.K_REF[cd] * common.UNIT[cd] * tolscale
    # parameters / momentum / inverse roots are downstream of the inverse roots, whose rounding error is
    # proportional to the condition number of the regularised factor (C10): scale by kappa/16 beyond 16.
    # If that bound exceeds TOL_CAP the comparison cannot decide anything (bfloat16 with an ill-conditioned factor):
    # it is skipped and counted, never replaced by a looser or a capped tolerance.
    tol_p = tol_f * max(1.0, ref.kappa / 16.0)
    skip_p = tol_p > TOL_CAP
    if skip_p:
        UNDECIDED[0] += 1

    def chk(name, a, b, tol, floor=0.0):
        nonlocal worst
        if skip_p and tol == tol_p and tol != tol_f:
            return
        e, _ = relerr(a, b, floor)
        if e / tol > worst:
            worst = e / tol
            WORST_NAME[0] = f"{name} err={e:.2e} tol={tol:.2e} kappa={ref.kappa:.1f}"
        if e > tol:
            msgs.append(f"{name}: rel err {e:.3e} > tol {tol:.1e} (impl {np.asarray(a).reshape(-1)[:4].tolist()} ref {np.asarray(b).reshape(-1)[:4].tolist()})")

    for i, p in enumerate(params):
        chk(f"param[{i}]", to_np(p.data), ref.params[i], tol_p, ref.pscale.get(i, 0.0))
    for gi, grp in enumerate(ref.groups):
        first = params[grp.pidxs[0]]
        t_impl = int(opt.state[first]["step"].item())
        if t_impl != grp.t:
            msgs.append(f"group {gi} step counter {t_impl} != reference {grp.t}")
        for b in grp.blocks:
            st = impl_block_state(opt, params[b.pidx], f"block_{b.bidx}")
            nm = f"p{b.pidx}.b{b.bidx}"
            nL = len(st.get("L", []))
            if nL != len(b.pre_dims):
                msgs.append(f"{nm}: {nL} factor matrices, reference has {len(b.pre_dims)}")
                continue
            for j, k in enumerate(b.pre_dims):
                chk(f"{nm}.L[{k}]", st["L"][j], b.L[k], tol_f)
                if not b.soap:
                    chk(f"{nm}.X[{k}]", st["X"][j], b.X[k], tol_p)
            if b.soap:
                chk(f"{nm}.V", st["V"], b.V, tol_f)
            for key, val in (("gacc", b.gacc), ("mom", b.mom), ("filt", b.filt)):
                if (val is None) != (key not in st):
                    msgs.append(f"{nm}.{key}: presence differs (impl {'has' if key in st else 'lacks'})")
                elif val is not None:
                    chk(f"{nm}.{key}", st[key], val, tol_p if key == "mom" else tol_f, b.scale.get(key, 0.0))
    return msgs, worst


# ----------------------------------------------------------------------------- histories


def all_masks(n, include_empty=True):
    ms = [list(m) for m in itertools.product([1, 0], repeat=n)]
    if not include_empty:
        ms = [m for m in ms if any(m)]
    return ms


def histories(masks, depth):
    """all sequences of length exactly depth (prefixes are checked on the way)."""
    return [list(h) for h in itertools.product(masks, repeat=depth)]


def soap_bases(opt, params, ref):
    bases = {}
    for grp in ref.groups:
        if not grp.soap:
            continue
        for b in grp.blocks:
            st = impl_block_state(opt, params[b.pidx], f"block_{b.bidx}")
            for j, k in enumerate(b.pre_dims):
                bases[(b.pidx, b.bidx, k)] = st["Q"][j]
    return bases


def run_history(cfg, hist, on_step=None, compare=True, tolscale=1.0):
    """Replay hist on a fresh optimizer and the reference.  Returns dict(msgs, worst, digests, nsteps).
    on_step(ctx) is called after every step with ctx = dict(opt, params, ref, t_index, event, before)."""
    import torch

    params, opt = build(cfg)
    ref = RefOpt(cfg, [to_np(p.data) for p in params])
    msgs, worst, digests = [], 0.0, []
    tstep = 0
    for ei, ev in enumerate(hist):
        if ev[0] == "set":
            apply_set(opt, ref, ev)
            continue
        mask = ev[1]
        set_grads(params, cfg, tstep, mask)
        opt.step()
        any_soap = any(g.soap for g in ref.groups)
        ref.step(ref_grads(cfg, tstep, mask), bases=soap_bases(opt, params, ref) if any_soap else None)
        tstep += 1
        if compare:
            m, w = compare_to_ref(opt, params, ref, cfg, tolscale)
            worst = max(worst, w)
            if m:
                msgs += [f"after event {ei} {ev}: {x}" for x in m[:4]]
        if on_step:
            r = on_step(dict(opt=opt, params=params, ref=ref, ei=ei, ev=ev, tstep=tstep))
            if r:
                msgs += [f"after event {ei} {ev}: {x}" for x in r]
        digests.append(visible_digest(opt, params))
        if msgs:
            break
    return {"msgs": msgs, "worst": worst, "digests": digests, "nsteps": tstep, "opt": opt, "params": params, "ref": ref}


def ref_load_from_impl(ref, opt, params):
    """One-step conformance mode: overwrite the reference state with the implementation's visible state."""
    for i, p in enumerate(params):
        ref.params[i] = to_np(p.data).copy()
    for grp in ref.groups:
        first = params[grp.pidxs[0]]
        grp.t = int(opt.state[first]["step"].item())
        for b in grp.blocks:
            st = impl_block_state(opt, params[b.pidx], f"block_{b.bidx}")
            for j, k in enumerate(b.pre_dims):
                b.L[k] = st["L"][j].copy()
                if b.soap:
                    b.Q[k] = st["Q"][j].copy()
                else:
                    b.X[k] = st["X"][j].copy()
            if b.soap:
                b.V = st["V"].copy().reshape(b.shape)
            if b.gacc is not None:
                b.gacc = st["gacc"].copy().reshape(b.shape)
            if b.mom is not None:
                b.mom = st["mom"].copy().reshape(b.shape)
            if b.filt is not None:
                b.filt = st["filt"].copy().reshape(b.shape)


def run_history_checked(cfg, hist, compare_from=0, resync=False, tolscale=1.0, extra=None):
    """Like run_history but (a) catches exceptions of the implementation as violations, (b) compares only
    from step index `compare_from` on (prefixes are compared by another history), (c) optional one-step
    conformance (resync) mode.  Returns dict(msgs, worst, digests, nsteps, refreshes)."""
    params, opt = build(cfg)
    ref = RefOpt(cfg, [to_np(p.data) for p in params])
    msgs, worst, digests, refreshes = [], 0.0, [], 0
    tstep = 0
    any_soap = any(g.soap for g in ref.groups)
    for ei, ev in enumerate(hist):
        if ev[0] == "set":
            apply_set(opt, ref, ev)
            continue
        mask = ev[1]
        set_grads(params, cfg, tstep, mask)
        if resync:
            ref_load_from_impl(ref, opt, params)
        try:
            opt.step()
        except Exception as e:
            msgs.append(f"event {ei} {ev}: step() raised {type(e).__name__}: {str(e)[:160]}")
            break
        ref.step(ref_grads(cfg, tstep, mask), bases=soap_bases(opt, params, ref) if any_soap else None)
        refreshes += sum(1 for g in ref.groups for b in g.blocks if b.last_refreshed)
        tstep += 1
        if ei >= compare_from:
            m, w = compare_to_ref(opt, params, ref, cfg, tolscale)
            worst = max(worst, w)
            if extra:
                m = m + (extra(dict(opt=opt, params=params, ref=ref, ei=ei, ev=ev, tstep=tstep, mask=mask)) or [])
            if m:
                msgs += [f"after event {ei} {ev}: {x}" for x in m[:4]]
                break
        digests.append(visible_digest(opt, params))
    return {"msgs": msgs, "worst": worst, "digests": digests, "nsteps": tstep, "refreshes": refreshes, "opt": opt, "params": params, "ref": ref}


def first_compare_index(hist, default_ev):
    """Index from which this leaf history is responsible for comparing: the prefix hist[:i+1] is 'owned' by the
    leaf whose remaining events are all the default event, so every node of the history tree is compared once."""
    i = len(hist) - 1
    while i > 0 and hist[i] == default_ev:
        i -= 1
    return i
