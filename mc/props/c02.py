"""C02 - warm-up equals the grafted torch.optim optimizer; afterwards its per-block step norm is kept.

SEQ engine, differential: all mask histories up to the depth bound x grafting target x hyper-parameter alphabet x
layouts.  (i) while step < start_preconditioning_step the Shampoo trajectory equals the torch.optim twin fed the same
gradients; (ii) from start on (momentum 0, weight decay 0, so the parameter delta is -lr * direction) every block's
delta has the norm of the twin's delta for that block and is parallel to the delta of Shampoo without grafting.
"""
from __future__ import annotations

import itertools
import json

import numpy as np

from .. import common, seq
from ..refs.blocks import ref_blocks

ID = "C02"
TECHNIQUE = "explicit exploration of all gradient-presence histories up to a depth bound x grafting-target configurations on the real optimizer, differential against torch.optim twins (warm-up equality, per-block norm and direction twins)"
RULE = (
    "targets {SGD, Adagrad, RMSprop, Adam, AdamW} with the README mapping x lr {1/2,1/8} x beta1 {0,0.5} x beta2 {0.5,0.75} x eps {1e-1,1e-3} x weight decay {0,0.5} x momentum/nesterov (SGD) "
    "x layouts {(4,3); (4,3) max_dim 2; (2,2,3) merged/unmerged; (5,); ()} + second parameter (3,) x warm-up length {2,4(thorough)} x all mask histories of depth D over 2 parameters "
    "({all,none} masks for the bias-corrected Adam variants); f64 and f32. state = visible digest; non-trivial = history with a mask change"
)
ASSUMPTIONS = [
    "equality only on the identical-formulation range: dampening 0, Adam variants only for histories where each parameter's update count equals the group's step count",
    "torch.optim.{SGD,Adagrad,RMSprop,Adam,AdamW} are the oracle",
]
TRUSTED = ["torch.optim.SGD/Adagrad/RMSprop/Adam/AdamW"]
EXHAUSTIVE = True

LAYOUTS = [
    dict(shapes=[[4, 3], [3]], max_dim=1024, merge=True),
    dict(shapes=[[4, 3], [3]], max_dim=2, merge=True),
    dict(shapes=[[2, 2, 3], [3]], max_dim=4, merge=True),
    dict(shapes=[[2, 2, 3], [3]], max_dim=2, merge=False),
    dict(shapes=[[5], [3]], max_dim=3, merge=True),
    dict(shapes=[[], [3]], max_dim=3, merge=False),
    # other preconditioners / schedules behind the same grafting contract
    dict(shapes=[[4, 3], [3]], max_dim=1024, merge=False, extra={"precond": ["soap", {"ignored": [0]}]}),
    dict(shapes=[[4, 3], [3]], max_dim=2, merge=False, extra={"precond": ["soap", {}], "freq": 2}),
    dict(shapes=[[4, 3], [3]], max_dim=3, merge=True, extra={"freq": 3}),
    # two parameter groups with the same options (weights / biases): each group has its own step counter
    dict(shapes=[[4, 3], [3]], max_dim=2, merge=True, extra={"groups": [{"params": [0], "over": {}}, {"params": [1], "over": {}}]}),
]


def bounds(tier):
    return {"depth": 4 if tier == "quick" else 5, "warmup": [2, 4]}


def targets(tier):
    out = []
    for lr, eps, wd in itertools.product([0.5, 0.125], [1e-1, 1e-3], [0.0, 0.5]):
        for mom, nest in [(0.0, False), (0.5, False), (0.5, True)]:
            out.append(dict(t="sgd", lr=lr, wd=wd, momentum=mom, nesterov=nest))
        out.append(dict(t="adagrad", lr=lr, eps=eps, wd=wd))
        for b2 in (0.5, 0.75):
            out.append(dict(t="rmsprop", lr=lr, eps=eps, wd=wd, beta2=b2))
            for b1 in (0.0, 0.5):
                out.append(dict(t="adam", lr=lr, eps=eps, wd=wd, beta1=b1, beta2=b2))
                out.append(dict(t="adamw", lr=lr, eps=eps, wd=wd, beta1=b1, beta2=b2))
    seen, uniq = set(), []
    for o in out:
        k = json.dumps(o, sort_keys=True)
        if k not in seen:
            seen.add(k)
            uniq.append(o)
    return uniq


def shampoo_cfg(tg, lay, start, pdtype, seed, with_graft=True):
    t = tg["t"]
    lay = dict(lay)
    extra = lay.pop("extra", {})
    kw = dict(lr=tg["lr"], wd=tg.get("wd", 0.0), eps=1e-1, freq=1, start=start, pdtype=pdtype, prec_dtype="f64" if pdtype == "f64" else "f32", seed=seed, **lay)
    kw.update(extra)
    if extra.get("freq", 1) > 1:
        kw["start"] = extra["freq"] + 1  # start >= frequency but deliberately NOT a multiple of it
    if t == "sgd":
        kw.update(betas=[0.0, 1.0], momentum=tg["momentum"], nesterov=tg["nesterov"], decoupled=False, graft=["sgd"])
    elif t == "adagrad":
        kw.update(betas=[0.0, 1.0], decoupled=False, graft=["adagrad", tg["eps"]])
    elif t == "rmsprop":
        kw.update(betas=[0.0, tg["beta2"]], decoupled=False, bias_corr=False, graft=["rmsprop", tg["beta2"], tg["eps"]])
    elif t in ("adam", "adamw"):
        kw.update(betas=[tg["beta1"], tg["beta2"]], decoupled=(t == "adamw"), bias_corr=True, graft=["adam", tg["beta2"], tg["eps"]])
    if not with_graft:
        kw["graft"] = None
    return seq.cfg_with(**kw)


def make_twin(tg, params):
    import torch

    t = tg["t"]
    if t == "sgd":
        return torch.optim.SGD(params, lr=tg["lr"], momentum=tg["momentum"], weight_decay=tg["wd"], nesterov=tg["nesterov"])
    if t == "adagrad":
        return torch.optim.Adagrad(params, lr=tg["lr"], eps=tg["eps"], weight_decay=tg["wd"])
    if t == "rmsprop":
        return torch.optim.RMSprop(params, lr=tg["lr"], alpha=tg["beta2"], eps=tg["eps"], weight_decay=tg["wd"])
    if t == "adam":
        return torch.optim.Adam(params, lr=tg["lr"], betas=(tg["beta1"], tg["beta2"]), eps=tg["eps"], weight_decay=tg["wd"])
    if t == "adamw":
        return torch.optim.AdamW(params, lr=tg["lr"], betas=(tg["beta1"], tg["beta2"]), eps=tg["eps"], weight_decay=tg["wd"])
    raise ValueError(t)


def work(tier, seed):
    tgs = targets(tier)
    units = []
    depth = 4 if tier == "quick" else 5
    for li, lay in enumerate(LAYOUTS):
        for ti, ch in enumerate(common.chunks(tgs, 12)):
            if tier == "quick":
                ch = [tg for j, tg in enumerate(ch) if (j + li + ti + seed) % 3 == 0]
            if ch:
                if tier == "thorough":
                    units.append({"layout": lay, "targets": ch, "depth": depth, "warmups": [2, 4], "dtypes": ["f64", "f32"]})
                elif "extra" in lay:
                    units.append({"layout": lay, "targets": ch[:2], "depth": 3, "warmups": [2], "dtypes": ["f64"]})
                else:
                    units.append({"layout": lay, "targets": ch, "depth": 3, "warmups": [2], "dtypes": ["f64"]})
                    units.append({"layout": lay, "targets": ch[:1], "depth": 3, "warmups": [2], "dtypes": ["f32"]})
                    longer = [tg for tg in ch if tg.get("momentum", 0) or tg["t"] in ("rmsprop", "adagrad")][:2]
                    if longer and "extra" not in lay:
                        units.append({"layout": lay, "targets": longer, "depth": 4, "warmups": [4], "dtypes": ["f64"]})
    # long horizon on the layouts without a refresh period (the period > 1 layouts hit the known finding F3 sooner or later)
    for li in (1, 3):
        sel = [tg for j, tg in enumerate(tgs) if (j + li + seed) % (9 if tier == "quick" else 3) == 0]
        for ch in common.chunks(sel, 2):
            units.append({"layout": LAYOUTS[li], "targets": ch, "depth": 10, "warmups": [2], "dtypes": ["f64"], "long": True})
    return units


def check(tg, lay, start, pdtype, hist, seed, zero_at=None, lr_sched=False):
    """one history: Shampoo-with-grafting vs torch twin (and vs Shampoo-without-grafting after start)."""
    import torch

    cfg = shampoo_cfg(tg, lay, start, pdtype, seed)
    start = cfg["start"]
    params, opt = seq.build(cfg)
    tparams = [torch.nn.Parameter(p.detach().clone()) for p in params]
    twin = make_twin(tg, [{"params": [tparams[i] for i in g["params"]]} for g in cfg["groups"]] if cfg.get("groups") else tparams)
    norm_part = tg.get("wd", 0.0) == 0.0 and tg.get("momentum", 0.0) == 0.0
    if norm_part:
        cfg0 = shampoo_cfg(tg, lay, start, pdtype, seed, with_graft=False)
        p0 = [torch.nn.Parameter(p.detach().clone()) for p in params]
        _, opt0 = seq.build(cfg0, params=p0)
    u = common.UNIT[pdtype]
    tol = 256 * u
    blocks = [ref_blocks(tuple(s), cfg["max_dim"], cfg["merge"])[1] for s in cfg["shapes"]]
    msgs, digests = [], []
    gstep = 0
    pscale = {}
    diverged = False
    for t, mask in enumerate(hist):
        if lr_sched and t >= 1:
            new_lr = tg["lr"] * (0.5 ** t)  # a scheduler writing param_groups[...]["lr"] between steps
            for o in [opt, twin] + ([opt0] if norm_part else []):
                for g in o.param_groups:
                    g["lr"] = new_lr
        seq.set_grads(params, cfg, t, mask)
        if zero_at is not None and zero_at[1] == t and params[zero_at[0]].grad is not None:
            params[zero_at[0]].grad.zero_()  # present but all-zero gradient (e.g. zero_grad(set_to_none=False) on an unused layer)
        for a, b in zip(params, tparams):
            b.grad = None if a.grad is None else a.grad.clone()
        if norm_part:
            for a, b in zip(params, p0):
                b.grad = None if a.grad is None else a.grad.clone()
        before = [p.detach().clone() for p in params]
        tbefore = [p.detach().clone() for p in tparams]
        b0 = [p.detach().clone() for p in p0] if norm_part else None
        try:
            opt.step()
            twin.step()
            if norm_part:
                opt0.step()
        except Exception as e:
            return [f"step {t} mask {mask}: raised {type(e).__name__}: {str(e)[:150]}"], digests
        if any(mask):
            gstep += 1
        for i, a in enumerate(params):
            if not torch.isfinite(a.detach()).all():
                msgs.append(f"step {t} mask {mask}: parameter {i} is not finite after the step")
        if gstep < start and not diverged:
            for i, (a, b) in enumerate(zip(params, tparams)):
                # scale: not smaller than the operands of the update (a 1-element parameter may cancel to ~0)
                pscale[i] = max(pscale.get(i, 0.0), b.detach().abs().max().item(), tbefore[i].abs().max().item())
                scale = max(pscale[i], 1e-30)
                err = (a.detach() - b.detach()).abs().max().item() / scale
                if not err <= tol:
                    msgs.append(f"warm-up step {t} (group step {gstep} < start {start}) mask {mask}: parameter {i} differs from torch.optim {tg['t']} twin by {err:.2e} (tol {tol:.1e})")
        elif any(mask):
            diverged = True
            if norm_part:
                for i, blks in enumerate(blocks):
                    if not mask[i]:
                        continue
                    d = (params[i].detach() - before[i]).double().reshape(-1).numpy()
                    dt = (tparams[i].detach() - tbefore[i]).double().reshape(-1).numpy()
                    d0 = (p0[i].detach() - b0[i]).double().reshape(-1).numpy()
                    for bi, (bs, idx) in enumerate(blks):
                        ix = np.asarray(idx).reshape(-1)
                        n, nt = np.linalg.norm(d[ix]), np.linalg.norm(dt[ix])
                        # deltas are differences of rounded parameters: allow the rounding of the parameter itself
                        pscale = float(params[i].detach().abs().max().item())
                        slack = 8 * u * pscale * np.sqrt(len(ix))
                        if abs(n - nt) > 512 * u * max(nt, 1e-30) + slack:
                            msgs.append(f"step {t} (group step {gstep} >= start {start}) mask {mask}: block {bi} of parameter {i}: |delta| = {n:.6e} but the grafted method's step has norm {nt:.6e}")
                        n0 = np.linalg.norm(d0[ix])
                        if n0 > 1e3 * slack and n > 1e3 * slack:
                            cos = float(d[ix] @ d0[ix]) / (n * n0)
                            if cos < 1 - 1e-4:
                                msgs.append(f"step {t} mask {mask}: block {bi} of parameter {i}: direction is not the Shampoo direction (cos with ungrafted Shampoo {cos:.6f})")
        digests.append(seq.visible_digest(opt, params))
        if msgs:
            break
    return msgs[:3], digests


def finding_signature(case, msg):
    """F3: a block whose parameter had no gradient at any refresh step so far still has all-zero inverse roots (they are
    recomputed only for blocks with a gradient at a refresh step), so its Shampoo direction - and hence its update - is
    exactly zero although the grafted method's step is not.  Only possible with precondition_frequency > 1."""
    import re

    m = re.search(r"step (\d+) \(group step \d+ >= start \d+\).*of parameter (\d+): \|delta\| = 0\.000000e\+00 but the grafted", msg)
    if not m or case.get("zero_at"):
        return None
    t_fail, pidx = int(m.group(1)), int(m.group(2))
    cfg = shampoo_cfg(case["target"], case["layout"], case["start"], case["pdtype"], 0)
    freq, start = cfg["freq"], cfg["start"]
    if freq <= 1:
        return None
    g = 0
    for t, mask in enumerate(case["hist"][: t_fail + 1]):
        if any(mask):
            g += 1
            refresh = g == start or (g > start and g % freq == 0)
            if refresh and mask[pidx]:
                return None  # the block was refreshed: a zero update would be something else
    return "shampoo-roots-never-computed:block-absent-at-every-refresh-so-far"


def run_unit(unit):
    res = {"evals": 0, "transitions": 0, "states": set(), "outcomes": set(), "nontrivial_count": 0, "violations": [], "samples": [],
           "stats": {"warmup_comparisons": 0, "norm_histories": 0}}
    lay = unit["layout"]
    for tg in unit["targets"]:
        adam = tg["t"] in ("adam", "adamw")
        # several groups: only steps in which all groups (or none) have gradients, so that every group's counter equals the
        # number of non-empty steps the comparison is indexed by
        masks = [[1, 1], [0, 0]] if (adam or lay.get("extra", {}).get("groups")) else seq.all_masks(2)
        for start in unit["warmups"]:
            eff = shampoo_cfg(tg, lay, start, "f64", 0)["start"]
            if eff != start and start != unit["warmups"][0]:
                continue
            depth = min(unit["depth"], eff + 2) if eff == start else eff + 1
            for pdtype in unit["dtypes"]:
                if unit.get("long"):
                    # long horizon: every periodic mask pattern of period <= 2 over 10 steps (norm transfer at every later step)
                    seen, hs = set(), []
                    for period in (1, 2):
                        for pat in itertools.product(masks, repeat=period):
                            h = tuple(tuple(pat[t % period]) for t in range(10))
                            if h not in seen:
                                seen.add(h)
                                hs.append(h)
                    res["stats"]["long_histories"] = res["stats"].get("long_histories", 0) + len(hs)
                else:
                    hs = itertools.product(masks, repeat=depth)
                for h in hs:
                    hist = [list(m) for m in h]
                    # one variant with a present-but-all-zero gradient of the second parameter at the first step >= start
                    za = (1, start - 1) if (len(hist) >= start and hist[start - 1][1] and all(any(m) for m in hist[: start - 1])) else None
                    msgs, digests = check(tg, lay, start, pdtype, hist, 0)
                    if za is not None and not msgs:
                        msgs, _ = check(tg, lay, start, pdtype, hist, 0, zero_at=za)
                        res["stats"]["zero_gradient_variants"] = res["stats"].get("zero_gradient_variants", 0) + 1
                        if msgs:
                            res["violations"].append({"case": {"target": tg, "layout": lay, "start": start, "pdtype": pdtype, "hist": hist, "zero_at": list(za)}, "msg": f"{msgs[0]} [zero gradient of parameter 1 at step {za[1]}; target {tg} layout {lay}]", "kind": "zero" + msgs[0].split(":")[-1][:25]})
                            msgs = []
                    if not msgs and tg.get("momentum", 0) and all(any(m) for m in hist):
                        msgs, _ = check(tg, lay, start, pdtype, hist, 0, lr_sched=True)
                        res["stats"]["lr_schedule_variants"] = res["stats"].get("lr_schedule_variants", 0) + 1
                        if msgs:
                            res["violations"].append({"case": {"target": tg, "layout": lay, "start": start, "pdtype": pdtype, "hist": hist, "lr_sched": True}, "msg": f"{msgs[0]} [learning rate halved after every step; target {tg} layout {lay}]", "kind": "lr" + msgs[0].split(":")[-1][:25]})
                            msgs = []
                    res["evals"] += 1
                    res["transitions"] += len(digests)
                    res["states"].update(digests)
                    if digests:
                        res["outcomes"].add(digests[-1])
                    if any(a != b for a, b in zip(hist, hist[1:])):
                        res["nontrivial_count"] += 1
                    res["stats"]["warmup_comparisons"] += 1
                    res["stats"]["norm_histories"] += int(tg.get("wd", 0) == 0 and tg.get("momentum", 0) == 0)
                    if msgs:
                        res["violations"].append({"case": {"target": tg, "layout": lay, "start": start, "pdtype": pdtype, "hist": hist}, "msg": f"{msgs[0]} [target {tg} layout {lay}]", "kind": msgs[0].split(":")[-1][:30]})
                        if len(res["violations"]) > 8:
                            break
        if len(res["samples"]) < 1:
            res["samples"].append({"target": tg, "layout": lay, "history": [[1, 1], [1, 0], [0, 1]]})
        if len(res["violations"]) > 8:
            break
    res["states"] = list(res["states"])
    res["outcomes"] = list(res["outcomes"])
    return res


def replay(case):
    za = case.get("zero_at")
    return check(case["target"], case["layout"], case["start"], case["pdtype"], case["hist"], 0, zero_at=tuple(za) if za else None, lr_sched=bool(case.get("lr_sched")))[0]
