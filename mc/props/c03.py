"""C03 - eigenvalue-corrected Shampoo (SOAP) is Adam run in a valid factor eigenbasis.

SEQ engine: all mask histories up to the depth bound x (eigenvector method x dtype pair x deviations) on the real
optimizer.  After every step: every stored basis is orthonormal; on a refresh step (block has a gradient) it
diagonalises the factor matrix of the same step (eigh) or passes the staircase test of the orthogonal-iteration
update of the previously stored basis (QR; eigh fallback for a zero estimate); on every other step / for blocks
without gradient it is bit-identical to the previous one.  Given the stored bases, corrected eigenvalues and
parameters follow the float64 'Adam in the stored basis' reference.
"""
from __future__ import annotations

import itertools
import json

import numpy as np

from .. import common, seq

ID = "C03"
TECHNIQUE = "explicit exploration of all gradient-presence histories up to a depth bound x configuration deviations on the real optimizer; basis invariants (orthonormality, diagonalisation, orthogonal-iteration staircase, bit-frozen off schedule) + float64 reference model given the stored bases"
RULE = (
    "complete product eigenvector method {eigh, QR(1 it), QR(3 it, tol 0), QR(2 it, tol 1e-5)} x (param dtype, preconditioner dtype) in {f32,f64,bf16}x{f32,f64}; all <=2 deviations (1 in quick) from "
    "baselines over beta2/epsilon/inv_root_override/ignored dims/grafting/momentum+decay/shape/(freq,start)/gradient kind; histories over masks {all,none,first-only,second-only} of depth D (plus, for 4 configurations with frequency 3 / start 4, every periodic mask pattern of period <= 2 (3) over 10 (13) steps) "
    "(3 quick, 4 thorough) with a rank-1 first gradient. state = visible optimizer digest; non-trivial = history with a mask change"
)
ASSUMPTIONS = [
    "bases are taken from the implementation's state ('given those bases') and validated separately",
    "degenerate eigenspaces: 'diagonalises' is checked, uniqueness of the basis is not",
    "staircase test skipped for bfloat16-stored bases (zero threshold would be vacuous); orthonormality still checked at bf16 tolerance",
]
TRUSTED = ["numpy float64 linear algebra", "mc.refs.shampoo.RefOpt (soap branch)"]
EXHAUSTIVE = True

METHODS = [{"method": "eigh"}, {"method": "qr", "iters": 1, "qtol": 1e-5}, {"method": "qr", "iters": 3, "qtol": 0.0}, {"method": "qr", "iters": 2, "qtol": 1e-5}]
DTYPES = [("f32", "f32"), ("f32", "f64"), ("f64", "f64"), ("f64", "f32"), ("bf16", "f32"), ("bf16", "f64")]
AXES = {
    "beta2": [0.5, 1.0],
    "eps": [1e-1, 1e-2],
    "inv_root_override": [0, 1, 4, [3, 1, 4]],  # list: one root per block order (orders beyond the list use the default)
    "ignored": [[], [0], [1], [0, 1], [2]],
    "graft": [None, ["adam", 0.5, 1e-1]],
    "mw": [(0.0, 0.0), (0.5, 0.5)],
    "shape": [[3], [2, 3], [2, 2, 2], [2, 1, 2, 2]],
    "fs": [(1, 1), (2, 2), (2, 3), (1, 2)],
    "grad_kind": ["rank1_first", "table", "onehot_first"],
    "beta1": [0.0, 0.5],
    "bias_corr": [True, False],
    "gscale": [1.0, 2.0 ** -17],  # tiny gradients, epsilon scaled by gscale^2 (diagonality must be decided exactly)
}
BASELINES = [
    {"beta2": 0.5, "eps": 1e-1, "inv_root_override": 0, "ignored": [], "graft": None, "mw": (0.0, 0.0), "shape": [2, 3], "fs": (1, 1), "grad_kind": "rank1_first", "beta1": 0.0, "bias_corr": True, "gscale": 1.0},
    {"beta2": 0.5, "eps": 1e-1, "inv_root_override": 0, "ignored": [], "graft": ["adam", 0.5, 1e-1], "mw": (0.5, 0.5), "shape": [2, 2, 2], "fs": (2, 2), "grad_kind": "table", "beta1": 0.5, "bias_corr": True, "gscale": 1.0},
]


def bounds(tier):
    return {"depth": 3 if tier == "quick" else 4, "max_deviations": 1 if tier == "quick" else 2}


def mk(d, method, dt, seed):
    if d["ignored"] and d["inv_root_override"] != 0:
        return None
    pc = ["soap", dict(method, ignored=d["ignored"])]
    return seq.cfg_with(
        shapes=[d["shape"], [3]], max_dim=1024, merge=False, freq=d["fs"][0], start=d["fs"][1], pdtype=dt[0], prec_dtype=dt[1], inv_root_override=d["inv_root_override"],
        precond=pc, betas=[d["beta1"], d["beta2"]], eps=d["eps"] * d["gscale"] ** 2, bias_corr=d["bias_corr"], gscale=d["gscale"], momentum=d["mw"][0], wd=d["mw"][1], graft=d["graft"], grad_kind=d["grad_kind"], lr=0.125, seed=seed,
    )


def configs(tier, seed):
    seen, out = set(), []

    def add(c):
        if c is None:
            return
        k = json.dumps(c, sort_keys=True)
        if k not in seen:
            seen.add(k)
            out.append(c)

    for m in METHODS:
        for dt in DTYPES:
            add(mk(BASELINES[0], m, dt, seed))
    # non-dyadic beta2 (0.999, 0.9): float64 everywhere and no bias correction, so that no float32 scalar enters and the
    # recurrences must hold to float64 accuracy (a weight 1 - beta2 formed in float32 is off by 1e-5 relative at 0.999)
    for b2 in (0.999, 0.9):
        for m in (METHODS[0], METHODS[2]):
            add(mk(dict(BASELINES[0], beta2=b2, bias_corr=False, grad_kind="table"), m, ("f64", "f64"), seed))
            add(mk(dict(BASELINES[1], beta2=b2, bias_corr=False, beta1=0.0), m, ("f64", "f64"), seed))
    # reduced-precision factor matrices (eigh is not implemented for bfloat16: every refresh takes the double-precision
    # retry, and the basis is stored in the parameter's float32): eigendecomposition method only
    for base in BASELINES:
        add(mk(base, METHODS[0], ("f32", "bf16"), seed))
        add(mk(dict(base, fs=(2, 2), grad_kind="table"), METHODS[0], ("f32", "bf16"), seed))
    maxdev = 1 if tier == "quick" else 2
    for bi, base in enumerate(BASELINES):
        for m in (METHODS[0], METHODS[2]) if tier == "quick" else METHODS:
            for nd in range(1, maxdev + 1):
                for ks in itertools.combinations(list(AXES), nd):
                    for vals in itertools.product(*[[v for v in AXES[k] if v != base[k]] for k in ks]):
                        d = dict(base)
                        d.update(dict(zip(ks, vals)))
                        add(mk(d, m, ("f32", "f32") if bi == 0 else ("f64", "f64"), seed))
    return out


def work(tier, seed):
    depth = 3 if tier == "quick" else 4
    cfgs = configs(tier, seed)
    units = [{"cfgs": ch, "depth": depth} for ch in common.chunks(cfgs, 2 if tier == "quick" else 3)]
    # long horizon: periodic mask patterns over many refresh intervals (both eigenvector methods, frequency 3 / start 4)
    longs = []
    for base in BASELINES:
        for m in (METHODS[0], METHODS[3]):
            c = mk(dict(base, fs=(3, 4), grad_kind="table"), m, ("f32", "f32") if base is BASELINES[0] else ("f64", "f64"), seed)
            if c is not None:
                longs.append(c)
    for c in longs:
        units.append({"cfgs": [c], "depth": 10 if tier == "quick" else 13, "long": True, "period": 2 if tier == "quick" else 3})
    return units


# ----------------------------------------------------------------------------- basis oracle


def staircase_ok(M, zero_tol):
    """Can the rows of M be permuted so that it becomes upper triangular?  leading non-zero column index l_i of each row,
    sorted ascending, must satisfy l_(i) >= i."""
    n = M.shape[0]
    thr = zero_tol * max(np.max(np.abs(M)), 1e-300)
    lead = []
    for i in range(n):
        nz = np.nonzero(np.abs(M[i]) > thr)[0]
        lead.append(int(nz[0]) if len(nz) else n)
    lead.sort()
    return all(l >= i for i, l in enumerate(lead)), lead


def basis_oracle(cfg):
    pc = cfg["precond"][1]
    method = pc.get("method", "eigh")
    stored_dt = cfg["pdtype"]
    # precision the basis is computed in: the factor's dtype, except below float32, where the library retries in double
    comp = cfg["prec_dtype"] if cfg["prec_dtype"] in ("f32", "f64") else "f64"
    cd = common.coarsest(cfg["pdtype"], comp)
    u = common.UNIT[cd]
    prev = {}

    def extra(ctx):
        import torch

        out = []
        opt, params, ref = ctx["opt"], ctx["params"], ctx["ref"]
        for grp in ref.groups:
            for b in grp.blocks:
                sh = opt.state[params[b.pidx]][f"block_{b.bidx}"]["shampoo"]
                Qs = [q.detach().clone() for q in sh.factor_matrices_eigenvectors]
                Ls = [seq.to_np(x) for x in sh.factor_matrices]
                key = (b.pidx, b.bidx)
                for j, Qt in enumerate(Qs):
                    nm = f"p{b.pidx}.b{b.bidx} basis {j}"
                    Q = Qt.double().numpy()
                    n = Q.shape[0]
                    zero = not Q.any()
                    if not b.last_refreshed:
                        if key in prev and not torch.equal(prev[key][j], Qt):
                            out.append(f"{nm} changed on a step where it must be held fixed (not a scheduled refresh with a gradient)")
                        continue
                    # refreshed on this step
                    if zero:
                        out.append(f"{nm} is still zero after a scheduled refresh with a gradient")
                        continue
                    orth = np.max(np.abs(Q.T @ Q - np.eye(n)))
                    if not orth <= 64 * n * common.UNIT[common.coarsest(stored_dt, cd)]:
                        out.append(f"{nm} is not orthonormal: max|Q^T Q - I| = {orth:.2e}")
                        continue
                    L = Ls[j]
                    Lscale = max(np.max(np.abs(L)), 1e-300)
                    Q0 = prev[key][j].double().numpy() if key in prev else np.zeros_like(Q)
                    use_eigh = method == "eigh" or not Q0.any() or n == 1
                    if use_eigh:
                        D = Q.T @ L @ Q
                        off = np.max(np.abs(D - np.diag(np.diag(D)))) / Lscale
                        tol = 64 * n * common.UNIT[common.coarsest(stored_dt, cd)]
                        if not off <= tol:
                            out.append(f"{nm} does not diagonalise the factor matrix it was computed from: off-diagonal {off:.2e} (tol {tol:.1e})")
                    elif stored_dt != "bf16":
                        kmax = pc.get("iters", 1)
                        ks = [kmax] if pc.get("qtol", 1e-5) == 0.0 else list(range(1, kmax + 1))
                        ztol = 1e-3 if cd == "f32" else 1e-8
                        ok = False
                        for k in ks:
                            M = Q.T @ np.linalg.matrix_power(L / Lscale, k) @ Q0
                            good, lead = staircase_ok(M, ztol)
                            if good:
                                ok = True
                                break
                        if not ok:
                            out.append(f"{nm} is not an orthogonal-iteration update (k in {ks}) of the previously stored basis: staircase test failed, leading indices {lead}")
                prev[key] = Qs
        return out

    return extra


def check(cfg, hist, compare_from=0):
    resync = cfg["pdtype"] == "bf16"
    return seq.run_history_checked(cfg, hist, compare_from=compare_from, resync=resync, extra=basis_oracle(cfg))


def run_unit(unit):
    res = {"evals": 0, "transitions": 0, "states": set(), "outcomes": set(), "nontrivial_count": 0, "violations": [], "samples": [],
           "stats": {"max_err_over_tol": 0.0, "refreshes": 0, "configs": 0}}
    for cfg in unit["cfgs"]:
        res["stats"]["configs"] += 1
        masks = [[1, 1], [0, 0], [1, 0], [0, 1]]
        if unit.get("long"):
            seen, hs = set(), []
            for period in range(1, unit["period"] + 1):
                for pat in itertools.product(masks, repeat=period):
                    h = tuple(tuple(pat[t % period]) for t in range(unit["depth"]))
                    if h not in seen:
                        seen.add(h)
                        hs.append([list(m) for m in h])
            res["stats"]["long_histories"] = res["stats"].get("long_histories", 0) + len(hs)
        else:
            hs = itertools.product(masks, repeat=unit["depth"])
        for h in hs:
            hist = [["step", list(m)] for m in h]
            # the basis oracle needs the whole prefix (it tracks the previous basis), so it runs from the first step;
            # the history tree is small enough here
            r = check(cfg, hist, 0)
            res["evals"] += 1
            res["transitions"] += r["nsteps"]
            res["states"].update(r["digests"])
            if r["digests"]:
                res["outcomes"].add(r["digests"][-1])
            res["stats"]["max_err_over_tol"] = max(res["stats"]["max_err_over_tol"], r["worst"])
            res["stats"]["refreshes"] += r["refreshes"]
            if any(a != b for a, b in zip(h, h[1:])):
                res["nontrivial_count"] += 1
            if r["msgs"]:
                res["violations"].append({"case": {"cfg": cfg, "hist": hist}, "msg": f"{r['msgs'][0]} [cfg {brief(cfg)}]", "kind": r["msgs"][0].split(":")[-1][:30]})
                if len(res["violations"]) > 8:
                    break
        if len(res["samples"]) < 1:
            res["samples"].append({"cfg": brief(cfg), "history": [["step", [1, 1]], ["step", [1, 0]], ["step", [0, 1]]]})
        if len(res["violations"]) > 8:
            break
    res["states"] = list(res["states"])
    res["outcomes"] = list(res["outcomes"])
    return res


def brief(cfg):
    return json.dumps({k: v for k, v in cfg.items() if seq.DEFAULT.get(k, "__") != v}, sort_keys=True)


def replay(case):
    return check(case["cfg"], case["hist"], 0)["msgs"]
