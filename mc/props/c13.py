"""C13 - failed root computations are tolerated N times then raised; stored roots stay finite.

SEQ engine + fault injector: the matrix routine used by the preconditioner lists is replaced by an injector whose
per-call outcome (compute / raise / return-NaN / return-Inf) is dictated by the explored script.  The history tree
is generated from the counter model (one consecutive-failure counter per block), so every history that the model
allows up to the depth bound is executed on the real optimizer through optimizer.step(), and the implementation
must agree with the model at every node: raise exactly when (and with the kind of error) the model says.
"""
from __future__ import annotations

import itertools
import json

import numpy as np

from .. import common, seq
from ..refs.shampoo import mode_gram

ID = "C13"
TECHNIQUE = "explicit exploration of every (gradient mask x per-factor fault outcome) history up to a depth bound through optimizer.step() with a scripted fault injector; oracle = per-block consecutive-failure counter model + bitwise frame conditions"
RULE = (
    "parameters A (1 factor), B (2 factors) [, C (2 factors, same shape as B)]; every mask at every step x every per-factor outcome vector over the active "
    "factors at every refresh (ok/raise; plus NaN/Inf vectors at depth <= 2) x tolerance {0,1,2} x frequency {1,2} x {Shampoo, SOAP}; histories end when the model "
    "predicts a raise.  state = digest of the visible optimizer state + counters after each step; non-trivial = history containing a failure and a mask change"
)
ASSUMPTIONS = [
    "the injector replaces distributed_shampoo.utils.shampoo_preconditioner_list.matrix_inverse_root / matrix_eigenvectors (module attributes)",
    "calls are attributed to (block, factor) by matching the argument against the expected factor matrix (distinct gradient streams per block)",
    "a history ends at the first raise (continuing after a failed step is outside the property)",
]
TRUSTED = ["counter model in mc.props.c13.Model", "torch.equal / isfinite"]
EXHAUSTIVE = True

SHAPES2 = [[4], [2, 3]]
SHAPES3 = [[4], [2, 3], [2, 3]]
NF = {1: 1, 2: 2}  # factors per block = order


def bounds(tier):
    return {"quick": {"2 params": "depth 3 (freq 1), depth 4 (freq 2)", "3 params": "depth 2", "nan/inf": "depth 2"}, "thorough": {"2 params": "depth 4 (freq 1), depth 5 (freq 2)", "3 params": "depth 3 (restricted outcomes), depth 2 full", "nan/inf": "depth 2 full, depth 3 single position"}}[tier]


def pre_dims(cfg, b):
    """dimensions of block b that carry a Kronecker factor (not ignored)."""
    ign = cfg["precond"][1].get("ignored", [])
    return [k for k in range(len(cfg["shapes"][b])) if k not in ign]


def mk_cfg(kind, tol, freq, shapes, seed, ignored=None):
    pc = ["shampoo", {"tol": tol}] if kind == "shampoo" else ["soap", {"tol": tol, "method": kind[5:] or "eigh"}]
    if ignored:
        pc[1]["ignored"] = list(ignored)
    return seq.cfg_with(shapes=shapes, max_dim=4, merge=True, freq=freq, start=freq, betas=[0.0, 0.5 if kind != "shampoo" else 1.0], precond=pc, lr=0.125, eps=1e-1, seed=seed)


class Model:
    """per-block consecutive-failure counters; one step counter and one refresh schedule per parameter group; the
    tolerance of a block is the one of its group's preconditioner config."""

    def __init__(self, cfg):
        self.cfg = cfg
        self.nb = len(cfg["shapes"])
        self.nf = [len(pre_dims(cfg, b)) for b in range(self.nb)]
        self.c = [0] * self.nb
        if cfg.get("groups"):
            self.groups = [list(g["params"]) for g in cfg["groups"]]
            tols = [g.get("over", {}).get("precond", cfg["precond"])[1]["tol"] for g in cfg["groups"]]
        else:
            self.groups = [list(range(self.nb))]
            tols = [cfg["precond"][1]["tol"]]
        self.gof = {b: gi for gi, g in enumerate(self.groups) for b in g}
        self.tolb = [tols[self.gof[b]] for b in range(self.nb)]
        self.tg = [0] * len(self.groups)
        self.tol = self.tolb[0]

    @property
    def t(self):
        return self.tg[0]

    def clone(self):
        m = Model.__new__(Model)
        m.__dict__.update(self.__dict__)
        m.c = list(self.c)
        m.tg = list(self.tg)
        return m

    def refreshing_groups(self, mask):
        out = []
        for gi, g in enumerate(self.groups):
            if any(mask[b] for b in g):
                t = self.tg[gi] + 1
                if (t % self.cfg["freq"] == 0 and t > self.cfg["start"]) or t == self.cfg["start"]:
                    out.append(gi)
        return out

    def refreshing_blocks(self, mask):
        gs = self.refreshing_groups(mask)
        return [b for b in range(self.nb) if mask[b] and self.gof[b] in gs]

    def will_refresh(self, mask):
        return bool(self.refreshing_groups(mask))

    def next_t(self, b, mask):
        gi = self.gof[b]
        return self.tg[gi] + (1 if any(mask[x] for x in self.groups[gi]) else 0)

    def apply(self, mask, outcomes):
        """outcomes: dict block -> tuple of per-factor outcomes (only for blocks that are refreshed) or None.
        returns None or ('value', block, factor) / ('tolerance', block).  Groups are processed in order; the first
        raise ends the step."""
        refreshing = self.refreshing_blocks(mask)
        for gi, g in enumerate(self.groups):
            if not any(mask[b] for b in g):
                continue
            self.tg[gi] += 1
            if outcomes is None:
                continue
            for b in g:
                if b not in refreshing or b not in outcomes:
                    continue
                oc = outcomes[b]
                for f, o in enumerate(oc):
                    if o in ("nan", "inf"):
                        return ("value", b, f)
                if all(o == "ok" for o in oc):
                    self.c[b] = 0
                else:
                    self.c[b] += 1
                    if self.c[b] > self.tolb[b]:
                        return ("tolerance", b)
        return None


def outcome_vectors(model, mask, alphabet, restricted=False):
    per_block = []
    refreshing = model.refreshing_blocks(mask)
    for b in range(model.nb):
        if b not in refreshing:
            per_block.append([None])
        elif restricted:
            per_block.append([("ok",) * model.nf[b], ("raise",) + ("ok",) * (model.nf[b] - 1)])
        else:
            per_block.append(list(itertools.product(alphabet, repeat=model.nf[b])))
    for combo in itertools.product(*per_block):
        yield {b: oc for b, oc in enumerate(combo) if oc is not None}


def gen_histories(cfg, depth, alphabet, first=None, restricted=False, cont=False):
    """DFS over the model: yields (history, expected_final) with history = list of [mask, outcomes|None]."""
    masks = seq.all_masks(len(cfg["shapes"]))

    def rec(model, hist):
        if len(hist) == depth:
            yield hist, None
            return
        choices = masks if (first is None or hist) else [first]
        for mask in choices:
            if model.will_refresh(mask):
                for oc in outcome_vectors(model, mask, alphabet, restricted):
                    m2 = model.clone()
                    r = m2.apply(mask, oc)
                    ev = [list(mask), {str(k): list(v) for k, v in oc.items()}]
                    if r is not None and not (cont and r[0] == "tolerance" and len(hist) + 1 < depth):
                        yield hist + [ev], r
                    else:
                        # cont: the caller catches the tolerance error and keeps calling step()
                        yield from rec(m2, hist + [ev])
            else:
                m2 = model.clone()
                m2.apply(mask, None)
                yield from rec(m2, hist + [[list(mask), None]])

    yield from rec(Model(cfg), [])


def work(tier, seed):
    units = []

    def add(kind, tol, freq, shapes, depth, alphabet, restricted=False, tag="", prec=None):
        cfg = mk_cfg(kind, tol, freq, shapes, seed)
        if prec:
            cfg = dict(cfg, prec_dtype=prec)
        for m in seq.all_masks(len(shapes)):
            units.append({"cfg": cfg, "depth": depth, "alphabet": alphabet, "first": m, "restricted": restricted, "tag": tag})

    kinds = ["shampoo", "soap_eigh", "soap_qr"]
    for kind in kinds:
        for tol in (0, 1, 2):
            if tier == "quick":
                add(kind, tol, 1, SHAPES2, 3, ["ok", "raise"], tag="count")
                if tol == 1:
                    add(kind, tol, 2, SHAPES2, 4, ["ok", "raise"], tag="count-f2")
            else:
                add(kind, tol, 1, SHAPES2, 4, ["ok", "raise"], tag="count")
                add(kind, tol, 2, SHAPES2, 5 if tol < 2 else 6, ["ok", "raise"], tag="count-f2")
        add(kind, 1, 1, SHAPES2, 2, ["ok", "raise", "nan", "inf"], tag="value")
        add(kind, 1, 1, SHAPES3, 2, ["ok", "raise"], tag="3p")
        # factor matrices wider than the parameters (float64 vs float32): a NaN / Inf result must raise before the cast to
        # the storage dtype can hide it
        add(kind, 1, 1, SHAPES2, 2, ["ok", "nan", "inf"], tag="value-f64", prec="f64")
        # ignored dimension 0: the 1-D block has no Kronecker factor at all (nothing to compute at a refresh, never a
        # failure), the 2-D block has one
        for tol in (0, 1):
            cfg = mk_cfg(kind, tol, 1, SHAPES2, seed, ignored=[0])
            for m in seq.all_masks(2):
                units.append({"cfg": cfg, "depth": 3 if tier == "quick" else 4, "alphabet": ["ok", "raise"], "first": m, "restricted": False, "tag": "ignored"})
        if tier == "thorough":
            for tol in (0, 1):
                add(kind, tol, 1, SHAPES3, 3, ["ok", "raise"], restricted=True, tag="3p-r")
            add(kind, 0, 2, SHAPES2, 3, ["ok", "raise", "nan", "inf"], tag="value-f2")
    # the caller catches the tolerance error and keeps stepping: every further failed refresh of that block raises again, a
    # success resets, the step counter / schedule keep advancing
    for kind in kinds:
        for tol in (0, 1):
            cfg = mk_cfg(kind, tol, 1, SHAPES2, seed)
            for m in seq.all_masks(2):
                units.append({"cfg": cfg, "depth": 3 if tier == "quick" else 4, "alphabet": ["ok", "raise"], "first": m, "restricted": tier == "thorough", "tag": "caught", "cont": True})
        cfg = mk_cfg(kind, 0, 2, SHAPES2, seed)
        for m in seq.all_masks(2):
            units.append({"cfg": cfg, "depth": 4 if tier == "quick" else 5, "alphabet": ["ok", "raise"], "first": m, "restricted": True, "tag": "caught-f2", "cont": True})
    # two parameter groups with different tolerances (and hence separate step counters / schedules)
    for kind in kinds:
        for tol0, tol1 in ((0, 2), (2, 0), (1, 0)):
            pc0 = ["shampoo", {"tol": tol0}] if kind == "shampoo" else ["soap", {"tol": tol0, "method": kind[5:]}]
            pc1 = ["shampoo", {"tol": tol1}] if kind == "shampoo" else ["soap", {"tol": tol1, "method": kind[5:]}]
            cfg = mk_cfg(kind, tol0, 1, SHAPES2, seed)
            cfg["groups"] = [{"params": [0], "over": {}}, {"params": [1], "over": {"precond": pc1}}]
            for m in seq.all_masks(2):
                units.append({"cfg": cfg, "depth": 3 if tier == "quick" else 4, "alphabet": ["ok", "raise"], "first": m, "restricted": False, "tag": "groups"})
    # poisoned gradients (NaN / Inf) - factor matrix non-finite at a refresh
    for kind in kinds:
        units.append({"cfg": mk_cfg(kind, 1, 1, SHAPES2, seed), "poison": True, "depth": 3 if tier == "quick" else 4})
        units.append({"cfg": mk_cfg(kind, 1, 2, SHAPES2, seed), "poison": True, "depth": 4 if tier == "quick" else 5})
    # bias correction that is exactly zero in float32 (beta2 = 1 - 1e-8): the bias-corrected factor is not finite
    for freq in (1, 2):
        units.append({"bc_zero": True, "depth": 2 if tier == "quick" else 3, "cfg": seq.cfg_with(shapes=SHAPES2, max_dim=4, merge=True, freq=freq, start=freq, betas=[0.0, 1.0 - 1e-8], bias_corr=True, lr=0.125, eps=1e-1, seed=seed, precond=["shampoo", {"tol": 1}])})
    # computed root finite in the preconditioner dtype but overflowing the storage (parameter) dtype
    for freq in (1, 2):
        units.append({"overflow": True, "depth": 2 if tier == "quick" else 3, "cfg": seq.cfg_with(shapes=SHAPES2, max_dim=4, merge=True, freq=freq, start=freq, betas=[0.0, 1.0], pdtype="f32", prec_dtype="f64", eps=1e-80, lr=0.125, seed=seed, precond=["shampoo", {"tol": 1}])})
    return units


def run_bc_zero(cfg, hist):
    """beta2 = 1 - 1e-8 with bias correction: the float32 bias correction 1 - beta2^t is exactly 0, so the matrix whose root
    is taken (factor / bias_correction) is non-finite although every gradient and the raw factor are finite -> every
    refresh with a gradient must raise PreconditionerValueError before any parameter is modified."""
    import torch
    from distributed_shampoo.shampoo_types import PreconditionerValueError

    params, opt = seq.build(cfg)
    model = Model(cfg)
    msgs, digests = [], []
    for ti, mask in enumerate(hist):
        seq.set_grads(params, cfg, ti, mask)
        before_p = [p.detach().clone() for p in params]
        refresh = bool(model.refreshing_blocks(mask))
        model.apply(mask, None)
        raised = None
        try:
            opt.step()
        except PreconditionerValueError:
            raised = "value"
        except Exception as e:
            raised = f"{type(e).__name__}: {str(e)[:80]}"
        want = "value" if refresh else None
        where = f"zero bias correction run, step {ti} mask {mask}"
        if raised != want:
            msgs.append(f"{where}: raised {raised}, expected {want} (factor / bias_correction is not finite)")
        if raised is not None and any(not bit_equal(p.detach(), b) for p, b in zip(params, before_p)):
            msgs.append(f"{where}: a parameter was modified although the step raised")
        for b in range(len(params)):
            for f, m in enumerate(stored(opt, params, b, False)):
                if not torch.isfinite(m).all():
                    msgs.append(f"{where}: stored inverse root {f} of block {b} is not finite")
        digests.append(common.h64(seq.visible_digest(opt, params)))
        if msgs:
            break
    return msgs[:3], digests


def run_overflow(cfg, hist):
    """float32 parameters, float64 factors, epsilon 1e-80: the inverse root of the rank-1 factor of the 1-D block A is
    ~1e40, finite in float64 but Inf once stored in float32 -> the refresh must raise PreconditionerValueError before
    any parameter is modified, and the stored roots stay finite."""
    import torch
    from distributed_shampoo.shampoo_types import PreconditionerValueError

    params, opt = seq.build(cfg)
    model = Model(cfg)
    msgs, digests = [], []
    for ti, mask in enumerate(hist):
        seq.set_grads(params, cfg, ti, mask)
        refresh = model.will_refresh(mask)
        model.apply(mask, None)
        before_p = [p.detach().clone() for p in params]
        raised = None
        try:
            opt.step()
        except PreconditionerValueError:
            raised = "value"
        except Exception as e:
            raised = f"{type(e).__name__}: {str(e)[:80]}"
        want = "value" if (refresh and mask[0]) else None
        where = f"overflow run, step {ti} mask {mask}"
        if raised != want:
            msgs.append(f"{where}: raised {raised}, expected {want} (root of block 0 overflows the float32 storage dtype)")
        if raised is not None:
            for b, p in enumerate(params):
                if not bit_equal(p.detach(), before_p[b]):
                    msgs.append(f"{where}: step raised but parameter {b} was modified")
        for b in range(len(params)):
            for f, m in enumerate(stored(opt, params, b, False)):
                if not torch.isfinite(m).all():
                    msgs.append(f"{where}: stored inverse root {f} of block {b} is not finite")
        for b, p in enumerate(params):
            if not torch.isfinite(p).all():
                msgs.append(f"{where}: parameter {b} is not finite")
        digests.append(seq.visible_digest(opt, params))
        if msgs or raised is not None:
            break
    return msgs[:4], digests


# ----------------------------------------------------------------------------- injector


class Injector:
    def __init__(self, cfg):
        import distributed_shampoo.utils.shampoo_preconditioner_list as spl

        self.spl = spl
        self.cfg = cfg
        self.soap = cfg["precond"][0] == "soap"
        self.real = spl.matrix_eigenvectors if self.soap else spl.matrix_inverse_root
        self.name = "matrix_eigenvectors" if self.soap else "matrix_inverse_root"
        self.expected = {}  # (block, factor) -> np matrix expected as argument
        self.script = {}
        self.calls = []  # (block, factor, outcome, returned tensor or None)
        self.problems = []

    def __enter__(self):
        setattr(self.spl, self.name, self)
        return self

    def __exit__(self, *a):
        setattr(self.spl, self.name, self.real)

    def __call__(self, A, *args, **kw):
        import torch

        a = A.detach().double().numpy()
        best, bestd, second = None, float("inf"), float("inf")
        for key, E in self.expected.items():
            if E.shape != a.shape:
                continue
            d = float(np.max(np.abs(E - a))) / max(float(np.max(np.abs(E))), 1e-30) if np.all(np.isfinite(a)) else (0.0 if not np.all(np.isfinite(E)) else float("inf"))
            if d < bestd:
                best, bestd, second = key, d, bestd
            elif d < second:
                second = d
        if best is None or bestd > 1e-3 or second < 10 * max(bestd, 1e-6):
            self.problems.append(f"matrix routine called with a matrix that is not the expected factor of any block (best match {best} dist {bestd:.2e}, second {second:.2e})")
            outcome = "ok"
        else:
            outcome = self.script.get(best, "unscripted")
            if outcome == "unscripted":
                self.problems.append(f"matrix routine called for factor {best[1]} of block {best[0]}, which has no gradient at this step / is not due for a refresh")
                outcome = "ok"
        if outcome == "raise":
            self.calls.append((best, outcome, None))
            raise RuntimeError("injected failure")
        out = self.real(A, *args, **kw)
        if outcome == "nan":
            out = out.contiguous().clone()
            out.view(-1)[0] = float("nan")
        elif outcome == "inf":
            out = out.contiguous().clone()
            out.view(-1)[-1] = float("inf")
        self.calls.append((best, outcome, out.detach().clone()))
        return out


def bit_equal(a, b):
    return bool((a.eq(b) | (a.isnan() & b.isnan())).all())


def stored(opt, params, b, soap):
    sh = opt.state[params[b]]["block_0"]["shampoo"]
    return list(sh.factor_matrices_eigenvectors if soap else sh.inv_factor_matrices)


def run_history(cfg, hist, expected_final, poison=None, cont=False):
    """Execute hist = [[mask, outcomes|None], ...] on the real optimizer with the injector; check every step."""
    import torch
    from distributed_shampoo.shampoo_types import PreconditionerValueError

    soap = cfg["precond"][0] == "soap"
    params, opt = seq.build(cfg)
    nb = len(params)
    model = Model(cfg)
    beta2 = cfg["betas"][1]
    L = {(b, f): np.zeros((shp[k], shp[k])) for b, shp in enumerate(cfg["shapes"]) for f, k in enumerate(pre_dims(cfg, b))}
    msgs, digests = [], []
    with Injector(cfg) as inj:
        for ti, (mask, oc) in enumerate(hist):
            seq.set_grads(params, cfg, ti, mask)
            if poison and poison[0] == ti:
                with torch.no_grad():
                    if poison[2] == "huge_onehot":
                        # finite one-hot gradient whose square overflows: the factor matrix stays exactly diagonal but holds Inf
                        params[poison[1]].grad.zero_()
                        params[poison[1]].grad.view(-1)[0] = 1e20
                    else:
                        params[poison[1]].grad.view(-1)[0] = float(poison[2])
            # expected factor matrices after this step's accumulation
            will_refresh = model.will_refresh(mask)
            for b in range(nb):
                if mask[b]:
                    G = params[b].grad.detach().double().numpy()
                    for f, k in enumerate(pre_dims(cfg, b)):
                        gram = mode_gram(G, k)
                        L[(b, f)] = beta2 * L[(b, f)] + (1 - beta2) * gram if beta2 != 1.0 else L[(b, f)] + gram
            bc2b = {b: ((1.0 - beta2 ** model.next_t(b, mask)) if (beta2 < 1.0) else 1.0) for b in range(nb)}
            inj.expected = {key: (v if soap else v / bc2b[key[0]]) for key, v in L.items()}
            inj.script = {}
            if will_refresh and oc is not None:
                for bs, o in oc.items():
                    for f, x in enumerate(o):
                        inj.script[(int(bs), f)] = x
            inj.calls, inj.problems = [], []
            before_p = [p.detach().clone() for p in params]
            before_m = [[m.detach().clone() for m in stored(opt, params, b, soap)] for b in range(nb)]
            raised = None
            try:
                opt.step()
            except PreconditionerValueError as e:
                raised = ("value", str(e)[:80])
            except ValueError as e:
                raised = ("tolerance", str(e)[:80])
            except Exception as e:
                raised = ("other", f"{type(e).__name__}: {str(e)[:80]}")
            poisoned_now = poison is not None and poison[0] <= ti and will_refresh and bool(mask[poison[1]])
            exp = model.apply(mask, {int(k): tuple(v) for k, v in oc.items()} if oc is not None else None)
            if poisoned_now:
                exp = ("value", poison[1], 0)
            where = f"step {ti} mask {mask} outcomes {oc}"
            msgs += [f"{where}: {p}" for p in inj.problems[:2]]
            # --- raise exactly when the model says so
            if exp is None and raised is not None:
                msgs.append(f"{where}: step raised {raised} but no block exceeded its tolerance (model counters {model.c}, tolerance {model.tol})")
            elif exp is not None and raised is None:
                msgs.append(f"{where}: step did not raise; model expects {exp} (counters {model.c}, tolerance {model.tol})")
            elif exp is not None and raised[0] != exp[0]:
                msgs.append(f"{where}: raised {raised}, model expects {exp}")
            # --- parameters untouched when the step raised
            if raised is not None:
                # parameters of the group whose refresh raised (and of the groups after it) must be untouched;
                # groups processed before it have legitimately completed their step
                first_gi = model.gof[exp[1]] if exp is not None else 0
                for b in range(nb):
                    if model.gof[b] >= first_gi and not bit_equal(params[b].detach(), before_p[b]):
                        msgs.append(f"{where}: step raised {raised[0]} error but parameter {b} (same or later group) was modified")
            # --- stored matrices: finite; failed / inactive => bit-unchanged; successful => the routine's result
            done = {}
            for key, o, out in inj.calls:
                done[key] = (o, out)
            for b in range(nb):
                after = stored(opt, params, b, soap)
                for f, m in enumerate(after):
                    if not torch.isfinite(m).all():
                        msgs.append(f"{where}: stored {'eigenbasis' if soap else 'inverse root'} {f} of block {b} is not finite")
                    o = done.get((b, f))
                    if o is None or o[0] == "raise":
                        if not torch.equal(m, before_m[b][f]):
                            why = "its computation failed" if o else "it was not (successfully) recomputed"
                            msgs.append(f"{where}: stored matrix {f} of block {b} changed although {why}")
                    elif o[0] == "ok":
                        if not torch.equal(m, o[1].to(m.dtype)):
                            msgs.append(f"{where}: stored matrix {f} of block {b} is not the successfully computed one")
            digests.append(common.h64(seq.visible_digest(opt, params), tuple(model.c)))
            if cont and not msgs and exp is not None and raised is not None and exp[0] == "tolerance" and raised[0] == "tolerance":
                continue  # the user catches the error and goes on: counters, schedule and stored matrices must stay consistent
            if msgs or raised is not None or exp is not None:
                break
    return msgs[:4], digests


def run_unit(unit):
    cfg = unit["cfg"]
    res = {"evals": 0, "transitions": 0, "states": set(), "outcomes": set(), "nontrivial_count": 0, "violations": [], "samples": [],
           "stats": {"expected_tolerance_raises": 0, "expected_value_raises": 0, "histories_fail_and_mask_change": 0, "poison_runs": 0}}

    def record(hist, msgs, digests, extra=None):
        res["evals"] += 1
        res["transitions"] += len(digests)
        res["states"].update(digests)
        if digests:
            res["outcomes"].add(digests[-1])
        if msgs:
            case = {"cfg": cfg, "hist": hist}
            if extra:
                case.update(extra)
            res["violations"].append({"case": case, "msg": f"{msgs[0]} [{cfg['precond']} freq={cfg['freq']}]", "kind": msgs[0].split(":")[-1][:30]})

    if unit.get("bc_zero"):
        for h in itertools.product(seq.all_masks(2), repeat=unit["depth"]):
            hist = [list(m) for m in h]
            msgs, digests = run_bc_zero(cfg, hist)
            res["stats"]["bc_zero_runs"] = res["stats"].get("bc_zero_runs", 0) + 1
            record(hist, msgs, digests, {"bc_zero": True})
    elif unit.get("overflow"):
        for h in itertools.product(seq.all_masks(2), repeat=unit["depth"]):
            hist = [list(m) for m in h]
            msgs, digests = run_overflow(cfg, hist)
            record(hist, msgs, digests, {"overflow": True})
            res["stats"]["overflow_runs"] = res["stats"].get("overflow_runs", 0) + 1
    elif unit.get("poison"):
        depth = unit["depth"]
        nb = len(cfg["shapes"])
        masks = [[1] * nb, [1, 0], [0, 1]]
        for h in itertools.product(masks, repeat=depth):
            base = []
            m = Model(cfg)
            for mask in h:
                oc = {str(b): ["ok"] * m.nf[b] for b in range(nb) if mask[b]} if m.will_refresh(mask) else None
                m.apply(mask, None)
                base.append([list(mask), oc])
            for ti in range(depth):
                for b in range(nb):
                    if not h[ti][b]:
                        continue
                    for val in ("nan", "inf", "huge_onehot"):
                        # the history is cut at the first refresh at or after the poisoned step
                        msgs, digests = run_history(cfg, base, None, poison=(ti, b, val))
                        res["stats"]["poison_runs"] += 1
                        record(base, msgs, digests, {"poison": [ti, b, val]})
            if len(res["violations"]) > 10:
                break
    else:
        first = unit["first"]
        cont = bool(unit.get("cont"))
        for hist, exp in gen_histories(cfg, unit["depth"], unit["alphabet"], first=first, restricted=unit.get("restricted", False), cont=cont):
            msgs, digests = run_history(cfg, hist, exp, cont=cont)
            record(hist, msgs, digests, {"cont": True} if cont else None)
            res["stats"]["histories_continued_after_raise"] = res["stats"].get("histories_continued_after_raise", 0) + int(cont)
            if exp is not None:
                res["stats"]["expected_tolerance_raises" if exp[0] == "tolerance" else "expected_value_raises"] += 1
            fails = any(oc and any(x != "ok" for v in oc.values() for x in v) for _, oc in hist)
            if fails and any(a[0] != b[0] for a, b in zip(hist, hist[1:])):
                res["nontrivial_count"] += 1
                res["stats"]["histories_fail_and_mask_change"] += 1
            if len(res["samples"]) < 1 and exp is not None and len(hist) >= 3:
                res["samples"].append({"cfg": {"precond": cfg["precond"], "freq": cfg["freq"]}, "history": hist, "model_expects": list(exp)})
            if len(res["violations"]) > 10:
                break
    res["states"] = list(res["states"])
    res["outcomes"] = list(res["outcomes"])
    return res


def replay(case):
    if case.get("bc_zero"):
        return run_bc_zero(case["cfg"], case["hist"])[0]
    if case.get("overflow"):
        return run_overflow(case["cfg"], case["hist"])[0]
    p = case.get("poison")
    msgs, _ = run_history(case["cfg"], case["hist"], None, poison=tuple(p) if p else None, cont=bool(case.get("cont")))
    return msgs
