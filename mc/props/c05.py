"""C05 - blocks tile each parameter exactly (views, row-major, <= max_preconditioner_dim) and blocking does not
change the math.

ENUM part: all shapes of order 0..4 (dims <= 4 quick / 6 thorough) x all thresholds x merge on/off through the real
Distributor with arange contents: the block contents ARE the flat indices, so tiling/order/box-ness are decided exactly
and compared with the independent ref_blocks.  SEQ part: optimizer on the blocked tensor vs optimizer on contiguous
copies of its blocks as separate parameters, over all mask histories.
"""
from __future__ import annotations

import itertools
import json
from math import prod

import numpy as np

from .. import common, seq
from ..refs.blocks import ref_blocks, ref_merge

ID = "C05"
TECHNIQUE = "bounded-exhaustive enumeration of shapes x thresholds x merge flag on the real Distributor (index-set oracle from arange contents) + exploration of all mask histories for blocked-vs-presplit optimizers"
RULE = (
    "tiling: all shapes of order 0..4 with dims in 1..Dmax (4 quick, 6 thorough) x max_preconditioner_dim in {1..7,1024} x merge {on,off} (thresholds 2, 3, 1024 additionally with the parameter/gradient as views at a non-zero storage offset and with a gradient in another memory layout); "
    "invariance: configs x shapes {(5,3),(4,4),(2,3,4),(7,),(2,1,3)} x thresholds {2,3} x all mask histories of depth D over 2 parameters. "
    "state = (shape,threshold,merge) resp. visible optimizer digest; non-trivial = parameter split into >= 2 blocks"
)
ASSUMPTIONS = ["dims <= 6 only; larger shapes only through structured cases of C07", "few-ulp tolerance (8 ulp of max-abs) for the invariance comparison"]
TRUSTED = ["mc.refs.blocks.ref_blocks", "torch untyped_storage().data_ptr()"]
EXHAUSTIVE = True
THRESHOLDS = [1, 2, 3, 4, 5, 6, 7, 1024]


def bounds(tier):
    return {"max_dim_size": 4 if tier == "quick" else 6, "orders": "0..4", "thresholds": THRESHOLDS, "invariance_depth": 2 if tier == "quick" else 3}


def all_shapes(dmax):
    out = []
    for order in range(0, 5):
        out += [tuple(s) for s in itertools.product(range(1, dmax + 1), repeat=order)]
    return out


ZERO_SHAPES = [(0,), (2, 0), (0, 3), (2, 0, 3), (3, 0, 0)]  # parameters without elements are legal (empty layers)
INV_SHAPES = [[5, 3], [4, 4], [2, 3, 4], [7], [2, 1, 3]]


def inv_cfgs(tier, seed):
    out = []
    variants = [
        dict(precond=["shampoo", {}], graft=None, betas=[0.0, 1.0]),
        dict(precond=["shampoo", {}], graft=["adam", 0.5, 1e-1], betas=[0.5, 0.5], momentum=0.5, wd=0.5),
        dict(precond=["shampoo", {}], graft=["sgd"], betas=[0.5, 1.0], bias_corr=False, momentum=0.5, nesterov=True),
        dict(precond=["soap", {}], graft=None, betas=[0.0, 0.5]),
        dict(precond=["soap", {"method": "qr"}], graft=["rmsprop", 0.5, 1e-1], betas=[0.5, 0.5], wd=0.5, decoupled=False),
        dict(precond=["shampoo", {"ignored": [0]}], graft=["adagrad", 1e-1], betas=[0.0, 0.5]),
        dict(precond=["shampoo", {}], graft=None, betas=[0.25, 0.5], beta3=0.5, inv_root_override=2),
        dict(precond=["shampoo", {"solver": "newton"}], graft=None, betas=[0.0, 1.0]),
    ]
    for vi, v in enumerate(variants):
        for si, s in enumerate(INV_SHAPES):
            for th in (1, 2, 3):
                if th == 1 and (vi not in (0, 1) or si not in (0, 3)):
                    continue  # one-element blocks: a few configurations only (many blocks)
                for merge in (True, False):
                    if tier == "quick" and (vi + si + th + int(merge) + seed) % 4 != 0:
                        continue
                    out.append(seq.cfg_with(shapes=[s, [3]], max_dim=th, merge=merge, lr=0.25, freq=1, start=2, seed=seed, **v))
    return out


def work(tier, seed):
    dmax = 4 if tier == "quick" else 6
    shapes = all_shapes(dmax) + ZERO_SHAPES
    units = [{"part": "tile", "shapes": ch} for ch in common.chunks(shapes, max(4, len(shapes) // 48))]
    depth = 2 if tier == "quick" else 3
    for ch in common.chunks(inv_cfgs(tier, seed), 4):
        units.append({"part": "inv", "cfgs": ch, "depth": depth})
    return units


# ----------------------------------------------------------------------------- tiling


PAD = 5  # elements in front of the parameter inside the flat buffer of the "offset" layout


def make_distributor(torch, shape, max_dim, merge, frozen=False, layout="plain"):
    from distributed_shampoo.shampoo_types import MAX_PRECONDITIONER_DIM, PARAMS, USE_MERGE_DIMS
    from distributed_shampoo.utils.shampoo_distributor import Distributor

    n = prod(shape) if shape else 1
    if layout == "offset":
        # the parameter is a view into a flat buffer (flattened parameter buffers, bucket views): storage_offset() != 0
        buf = torch.full((PAD + n + 3,), -7.0)
        buf[PAD : PAD + n] = torch.arange(n, dtype=torch.float32)
        p = torch.nn.Parameter(buf[PAD : PAD + n].view(shape), requires_grad=not frozen)
        assert p.storage_offset() == PAD and p.untyped_storage().data_ptr() == buf.untyped_storage().data_ptr()
        p._verif_buf = buf
    elif layout == "tparam":
        # same logical content, but the parameter's memory layout is not row-major (transposed / tied weight, channels_last)
        perm = list(range(len(shape)))[::-1]
        p = torch.nn.Parameter(torch.arange(n, dtype=torch.float32).reshape(shape).permute(perm).contiguous().permute(perm), requires_grad=not frozen)
        assert not p.is_contiguous()
    else:
        p = torch.nn.Parameter(torch.arange(n, dtype=torch.float32).reshape(shape), requires_grad=not frozen)
    group = {PARAMS: [p], MAX_PRECONDITIONER_DIM: max_dim, USE_MERGE_DIMS: merge}
    d = Distributor(group)
    if frozen:
        p.requires_grad_(True)  # gradual unfreezing: the parameter was frozen when the optimizer was built
    return p, d


def check_tiling(torch, shape, max_dim, merge, frozen=False, layout="plain"):
    msgs = []
    n = prod(shape) if shape else 1
    try:
        p, d = make_distributor(torch, shape, max_dim, merge, frozen, layout)
    except RuntimeError as e:
        if layout == "tparam" and "view size is not compatible" in str(e):
            return [], 0, ("tparam-rejected",)  # merging needs a view the layout does not admit: rejected, not mis-blocked
        raise
    blocks = d.local_blocked_params
    mshape, ref = ref_blocks(shape, max_dim, merge)
    # reference-free invariants
    seen = np.zeros(n, dtype=np.int64)
    base_ptr = p.untyped_storage().data_ptr()
    for i, b in enumerate(blocks):
        vals = b.detach().reshape(-1).to(torch.int64).numpy()
        if ((vals < 0) | (vals >= n)).any():
            msgs.append(f"block {i} holds values outside the parameter")
            continue
        np.add.at(seen, vals, 1)
        if any(s > max_dim for s in b.shape):
            msgs.append(f"block {i} shape {tuple(b.shape)} exceeds max_preconditioner_dim {max_dim}")
        if b.untyped_storage().data_ptr() != base_ptr:
            msgs.append(f"block {i} does not share the parameter's storage (copy, not view)")
        if len(vals) > 1 and not (np.diff(vals) > 0).all():
            msgs.append(f"block {i} does not keep row-major element order")
        if b.requires_grad:
            msgs.append(f"block {i} requires grad")
    if not (seen == 1).all():
        msgs.append(f"blocks do not cover each element exactly once (multiplicities {sorted(set(seen.tolist()))})")
    # merged dims rule
    if merge and tuple(d._global_merged_dims_list[0]) != tuple(ref_merge(shape, max_dim)):
        msgs.append(f"merged dims {tuple(d._global_merged_dims_list[0])} != reference {ref_merge(shape, max_dim)}")
    # exact agreement with the reference tiling (shape, order, contents)
    if len(blocks) != len(ref):
        msgs.append(f"{len(blocks)} blocks, reference has {len(ref)}")
    else:
        for i, (b, (rs, ridx)) in enumerate(zip(blocks, ref)):
            if tuple(b.shape) != tuple(rs):
                msgs.append(f"block {i} has shape {tuple(b.shape)}, reference {tuple(rs)}")
                break
            if not np.array_equal(b.detach().to(torch.int64).numpy(), ridx):
                msgs.append(f"block {i} covers different elements than the reference block")
                break
    # writes through a block are visible in the parameter
    if blocks and not msgs:
        with torch.no_grad():
            blocks[-1].add_(1000.0)
        want = torch.arange(n, dtype=torch.float32)
        want[torch.as_tensor(np.asarray(ref[-1][1]).reshape(-1))] += 1000.0
        if not torch.equal(p.detach().reshape(-1), want):
            msgs.append("writing through the last block is not visible in the parameter")
        with torch.no_grad():
            blocks[-1].sub_(1000.0)
        if layout == "offset":
            buf = p._verif_buf
            if not (bool((buf[:PAD] == -7.0).all()) and bool((buf[PAD + n :] == -7.0).all())):
                msgs.append("writing through a block modified memory outside the parameter (padding of the flat buffer)")
    # gradient blocks cover the same index sets in the same order
    gfull = (torch.arange(n, dtype=torch.float32) * 2 + 1).reshape(shape)
    if layout == "offset":
        gbuf = torch.full((3 + n + 2,), -9.0)
        gbuf[3 : 3 + n] = gfull.reshape(-1)
        p.grad = gbuf[3 : 3 + n].view(shape)
    elif layout == "tgrad":
        # same values and shape, other memory layout (reversed dimension order in memory); .grad accepts any strides.
        # The library may reject such a gradient where merging needs a view (RuntimeError), but must never scramble it.
        perm = list(range(len(shape)))[::-1]
        p.grad = gfull.permute(perm).contiguous().permute(perm)
    else:
        p.grad = gfull
    try:
        gb = d.merge_and_block_gradients()
    except RuntimeError as e:
        if layout == "tgrad" and "view size is not compatible" in str(e):
            return msgs, len(blocks), ("tgrad-rejected",)
        raise
    if len(gb) != len(blocks):
        msgs.append(f"{len(gb)} gradient blocks vs {len(blocks)} parameter blocks")
    else:
        for i, (g, b) in enumerate(zip(gb, blocks)):
            if g.shape != b.shape or not torch.equal(g, b.detach() * 2 + 1):
                msgs.append(f"gradient block {i} covers a different index set than parameter block {i}")
                break
    if d.local_grad_selector != (True,) * len(blocks):
        msgs.append("grad selector not all-true with a gradient present")
    return msgs, len(blocks), tuple(tuple(b.shape) for b in blocks)


# ----------------------------------------------------------------------------- invariance


def check_invariance(cfg, hist, zero_block=False):
    """blocked run vs pre-split run (blocks as separate contiguous parameters, no blocking)."""
    import torch

    params, opt = seq.build(cfg)
    layout = [ref_blocks(tuple(s), cfg["max_dim"], cfg["merge"])[1] for s in cfg["shapes"]]
    tw_cfg = dict(cfg)
    tw_shapes, owner = [], []
    for pi, blks in enumerate(layout):
        for bs, _ in blks:
            tw_shapes.append(list(bs))
            owner.append(pi)
    tw_cfg.update(shapes=tw_shapes, max_dim=1024, merge=False)
    tparams = []
    for pi, blks in enumerate(layout):
        flat = params[pi].detach().reshape(-1)
        for bs, idx in blks:
            tparams.append(torch.nn.Parameter(flat[torch.as_tensor(np.asarray(idx).reshape(-1))].reshape(bs).clone()))
    _, topt = seq.build(tw_cfg, params=tparams)
    u = common.UNIT[cfg["pdtype"]]
    msgs, digests = [], []
    for t, mask in enumerate(hist):
        seq.set_grads(params, cfg, t, mask)
        if zero_block and t >= 1 and params[0].grad is not None:
            # the gradient is exactly zero on the whole first block (but not on the whole tensor): still a gradient
            params[0].grad.reshape(-1)[torch.as_tensor(np.asarray(layout[0][0][1]).reshape(-1))] = 0.0
        k = 0
        for pi, blks in enumerate(layout):
            for bs, idx in blks:
                if params[pi].grad is None:
                    tparams[k].grad = None
                else:
                    tparams[k].grad = params[pi].grad.reshape(-1)[torch.as_tensor(np.asarray(idx).reshape(-1))].reshape(bs).clone()
                k += 1
        try:
            opt.step()
            topt.step()
        except Exception as e:
            return [f"step {t} mask {mask}: raised {type(e).__name__}: {str(e)[:150]}"], digests
        k = 0
        for pi, blks in enumerate(layout):
            flat = params[pi].detach().reshape(-1)
            for bi, (bs, idx) in enumerate(blks):
                a = flat[torch.as_tensor(np.asarray(idx).reshape(-1))].reshape(bs)
                b = tparams[k].detach()
                scale = max(a.abs().max().item(), b.abs().max().item(), 1e-30)
                err = (a - b).abs().max().item() / scale
                if not err <= 16 * u:
                    msgs.append(f"step {t} mask {mask}: block {bi} of parameter {pi} differs from the same block optimised as a separate parameter (rel diff {err:.2e})")
                k += 1
        digests.append(seq.visible_digest(opt, params))
        if msgs:
            break
    return msgs[:3], digests


def run_unit(unit):
    import torch

    res = {"evals": 0, "transitions": 0, "states": set(), "outcomes": set(), "nontrivial_count": 0, "violations": [], "samples": [], "stats": {"max_blocks": 0, "tile_cases": 0, "inv_histories": 0}}
    if unit["part"] == "tile":
        for shape in unit["shapes"]:
            shape = tuple(shape)
            for max_dim in THRESHOLDS:
                for merge in (True, False):
                    try:
                        msgs, nb, sig = check_tiling(torch, shape, max_dim, merge)
                        if not msgs and max_dim in (2, 1024):
                            m2, _, _ = check_tiling(torch, shape, max_dim, merge, frozen=True)
                            msgs = [f"(parameter frozen at construction, unfrozen later) {m}" for m in m2]
                        if not msgs and max_dim in (2, 3, 1024):
                            m2, _, _ = check_tiling(torch, shape, max_dim, merge, layout="offset")
                            msgs = [f"(parameter and gradient are views into flat buffers at a non-zero storage offset) {m}" for m in m2]
                            res["stats"]["offset_layout_cases"] = res["stats"].get("offset_layout_cases", 0) + 1
                        if not msgs and max_dim in (2, 3, 1024) and len(shape) >= 2 and sum(1 for x in shape if x > 1) >= 2 and prod(shape) > 0:
                            m2, _, sg = check_tiling(torch, shape, max_dim, merge, layout="tparam")
                            msgs = [f"(parameter whose memory layout is not row-major) {m}" for m in m2]
                            res["stats"]["tparam_cases"] = res["stats"].get("tparam_cases", 0) + 1
                            res["stats"]["tparam_rejected_by_view"] = res["stats"].get("tparam_rejected_by_view", 0) + int(sg == ("tparam-rejected",))
                        if not msgs and max_dim in (2, 3, 1024) and len(shape) >= 2 and sum(1 for x in shape if x > 1) >= 2 and prod(shape) > 0:
                            m2, _, sg = check_tiling(torch, shape, max_dim, merge, layout="tgrad")
                            msgs = [f"(gradient with another memory layout than the parameter) {m}" for m in m2]
                            res["stats"]["tgrad_cases"] = res["stats"].get("tgrad_cases", 0) + 1
                            res["stats"]["tgrad_rejected_by_view"] = res["stats"].get("tgrad_rejected_by_view", 0) + int(sg == ("tgrad-rejected",))
                    except Exception as e:
                        msgs, nb, sig = [f"raised {type(e).__name__}: {str(e)[:150]}"], 0, ()
                    res["evals"] += 1
                    res["transitions"] += 1
                    res["stats"]["tile_cases"] += 1
                    res["states"].add(common.h64(shape, max_dim, merge))
                    res["outcomes"].add(common.h64(sig))
                    res["stats"]["max_blocks"] = max(res["stats"]["max_blocks"], nb)
                    if nb >= 2:
                        res["nontrivial_count"] += 1
                    for m in msgs[:2]:
                        res["violations"].append({"case": {"part": "tile", "shape": shape, "max_dim": max_dim, "merge": merge}, "msg": f"shape={shape} max_dim={max_dim} merge={merge}: {m}", "kind": m[:30]})
                    if len(res["samples"]) < 1 and nb >= 4:
                        res["samples"].append({"shape": shape, "max_dim": max_dim, "merge": merge, "block_shapes": [list(s) for s in sig]})
            if len(res["violations"]) > 60:
                break
    else:
        masks = seq.all_masks(2)
        for cfg in unit["cfgs"]:
            for h in itertools.product(masks, repeat=unit["depth"]):
                hist = [list(m) for m in h]
                msgs, digests = check_invariance(cfg, hist)
                if not msgs and all(m[0] for m in hist):
                    msgs, _ = check_invariance(cfg, hist, zero_block=True)
                    msgs = [f"(gradient exactly zero on the first block) {m}" for m in msgs]
                    res["stats"]["zero_block_histories"] = res["stats"].get("zero_block_histories", 0) + 1
                res["evals"] += 1
                res["transitions"] += len(hist)
                res["stats"]["inv_histories"] += 1
                res["states"].update(digests)
                if digests:
                    res["outcomes"].add(digests[-1])
                res["nontrivial_count"] += 1
                if msgs:
                    res["violations"].append({"case": {"part": "inv", "cfg": cfg, "hist": hist}, "msg": f"{msgs[0]} [cfg {json.dumps({k: v for k, v in cfg.items() if seq.DEFAULT.get(k, '__') != v}, sort_keys=True)}]", "kind": "inv"})
                    if len(res["violations"]) > 8:
                        break
            if len(res["samples"]) < 1:
                res["samples"].append({"invariance_cfg": {k: v for k, v in cfg.items() if seq.DEFAULT.get(k, "__") != v}, "history": [list(m) for m in masks[:unit["depth"]]]})
    res["violations"] = res["violations"][:40]
    res["states"] = list(res["states"])
    res["outcomes"] = list(res["outcomes"])
    return res


def replay(case):
    import torch

    if case["part"] == "tile":
        try:
            args = (torch, tuple(case["shape"]), case["max_dim"], case["merge"])
            a = check_tiling(*args)[0] or check_tiling(*args, frozen=True)[0] or check_tiling(*args, layout="offset")[0]
            if not a and len(case["shape"]) >= 2 and sum(1 for x in case["shape"] if x > 1) >= 2 and prod(case["shape"]) > 0:
                a = check_tiling(*args, layout="tparam")[0] or check_tiling(*args, layout="tgrad")[0]
            return a
        except Exception as e:
            return [f"raised {type(e).__name__}: {e}"]
    a = check_invariance(case["cfg"], case["hist"])[0]
    return a or check_invariance(case["cfg"], case["hist"], zero_block=True)[0]
