"""C15 - shard-to-tensor-block recovery: fewest valid slabs, returned as views.

ENUM engine: every (shape, start, end) of the bounded space is executed on both copies of the real
routine and compared with an independent dynamic-programming reference (minimum slab cover).
"""
from __future__ import annotations

import itertools
from math import prod

ID = "C15"
TECHNIQUE = "bounded-exhaustive enumeration of (shape,start,end) on the real routine vs. DP reference for the minimum slab cover"
RULE = (
    "all shapes of order 0..5 with dims in 1..4 and numel <= N (N=24 quick, 48 thorough) plus (7,14),(3,5,7),(2,3,4,5)[thorough]; "
    "all 0<=start<=end<=numel; both copies (FSDP, HSDP). state = (shape,start,end); non-trivial = result has >= 2 pieces"
)
ASSUMPTIONS = [
    "private static methods FSDPDistributor._split_tensor_block_recovery / HSDPDistributor._split_tensor_block_recovery are the anchors of the property",
    "exhaustive only up to the stated numel bound; larger shapes only via the structured examples",
]
TRUSTED = ["torch.Tensor.narrow/view/storage_offset", "mc.props.c15.min_cover (DP reference)"]
EXHAUSTIVE = True


def bounds(tier):
    return {"max_numel": 24 if tier == "quick" else 48, "orders": "0..5", "dims": "1..4"}


def shapes_for(tier):
    N = 24 if tier == "quick" else 48
    out = []
    for order in range(0, 6):
        for s in itertools.product(range(1, 5), repeat=order):
            if prod(s) <= N:
                out.append(tuple(s))
    out += [(7, 14), (3, 5, 7)]
    if tier == "thorough":
        out += [(2, 3, 4, 5), (5, 1, 6), (6, 6), (2, 2, 2, 2, 2, 2)]
    return out


def work(tier, seed):
    shp = shapes_for(tier)
    # balance: big shapes alone, small shapes in chunks
    big = [[s] for s in shp if prod(s) > 40]
    small = [s for s in shp if prod(s) <= 40]
    small.sort(key=lambda s: -prod(s))
    n = 16 * 4
    units = big + [small[i::n] for i in range(n) if small[i::n]]
    return [{"shapes": u} for u in units] + [{"huge": True}]


# ----------------------------------------------------------------------------- reference


def valid_slabs(shape):
    """valid[a] = {b: set of slab shapes} for all valid slabs [a,b)."""
    shape = tuple(shape) if len(shape) else (1,)
    n = prod(shape)
    nd = len(shape)
    valid = [dict() for _ in range(n + 1)]
    for d in range(nd):
        s_d = prod(shape[d + 1 :])
        outer = shape[d] * s_d  # extent of one index of dims < d
        for a in range(0, n, s_d):
            hi = (a // outer + 1) * outer
            for b in range(a + s_d, hi + 1, s_d):
                valid[a].setdefault(b, set()).add((((b - a) // s_d),) + shape[d + 1 :])
    return valid


def min_cover_table(shape):
    shape_ = tuple(shape) if len(shape) else (1,)
    n = prod(shape_)
    valid = valid_slabs(shape)
    INF = 10 ** 9
    # f[b][a] = min pieces to cover [a,b)
    f = [[INF] * (n + 1) for _ in range(n + 1)]
    for b in range(n + 1):
        fb = f[b]
        fb[b] = 0
        for a in range(b - 1, -1, -1):
            best = INF
            for q in valid[a]:
                if q <= b and fb[q] + 1 < best:
                    best = fb[q] + 1
            fb[a] = best
    return f, valid


# ----------------------------------------------------------------------------- check of one case


def check_case(torch, fn, shape, start, end, f, valid, strided=False):
    """returns (list of msgs, npieces, signature)"""
    msgs = []
    n = prod(shape) if len(shape) else 1
    if strided:
        # a flat shard that is a non-contiguous view (every second element of a buffer): pieces must still be views of it
        buf = torch.zeros(2 * n, dtype=torch.float32)
        buf[::2] = torch.arange(n, dtype=torch.float32)
        shard = buf[::2].narrow(0, start, end - start)
        out = fn(shard, torch.Size(shape), start, end)
        pos = start
        for i, t in enumerate(out):
            k = t.numel()
            if t.untyped_storage().data_ptr() != buf.untyped_storage().data_ptr():
                msgs.append(f"piece {i} of a non-contiguous shard is a copy, not a view")
            elif k:
                with torch.no_grad():
                    t.add_(1000.0)
                if not torch.equal(shard[pos - start : pos - start + k], torch.arange(pos, pos + k, dtype=torch.float32) + 1000.0):
                    msgs.append(f"writing through piece {i} of a non-contiguous shard is not visible in the shard")
            pos += k
        if pos != end:
            msgs.append(f"pieces of the non-contiguous shard cover [{start},{pos}) instead of [{start},{end})")
        return msgs, len(out), tuple(tuple(t.shape) for t in out)
    base = torch.arange(n, dtype=torch.float32)
    shard = base.narrow(0, start, end - start)
    out = fn(shard, torch.Size(shape), start, end)
    if not isinstance(out, list):
        msgs.append(f"returned {type(out).__name__}, not list")
        out = list(out)
    if start == end:
        if out:
            msgs.append(f"empty range returned {len(out)} blocks")
        return msgs, 0, ()
    pos = start
    sig = []
    for i, t in enumerate(out):
        k = t.numel()
        a, b = pos, pos + k
        if k == 0:
            msgs.append(f"piece {i} is empty")
            continue
        if t.untyped_storage().data_ptr() != base.untyped_storage().data_ptr():
            msgs.append(f"piece {i} is a copy, not a view of the shard")
        elif t.storage_offset() != a or not t.is_contiguous():
            msgs.append(f"piece {i}: storage offset {t.storage_offset()} (expected {a}) contiguous={t.is_contiguous()}")
        if b > end:
            msgs.append(f"piece {i} overruns the range: [{a},{b}) vs end {end}")
            break
        flat = t.reshape(-1)
        if flat[0].item() != a or flat[-1].item() != b - 1 or not torch.equal(flat, base[a:b]):
            msgs.append(f"piece {i} does not hold elements [{a},{b}) in order")
        shp = tuple(t.shape)
        if b not in valid[a] or shp not in valid[a][b]:
            msgs.append(f"piece {i} with shape {shp} covering [{a},{b}) is not a slab k x shape[d+1:] inside one leading index")
        sig.append(shp)
        pos = b
    if pos != end and not msgs:
        msgs.append(f"pieces cover [{start},{pos}) instead of [{start},{end})")
    want = f[end][start]
    if not msgs and len(out) != want:
        msgs.append(f"{len(out)} pieces returned, minimum slab decomposition has {want}")
    return msgs, len(out), tuple(sig)


def nonflat_accepted(torch, fn, shape, start, end, vshape):
    try:
        out = fn(torch.zeros(end - start).view(*vshape), torch.Size(shape), start, end)
    except ValueError:
        return None
    except Exception as e:
        return f"non-flat shard of shape {tuple(vshape)}: raised {type(e).__name__} instead of ValueError"
    return f"non-flat shard of shape {tuple(vshape)} accepted (returned {len(out)} blocks); it must be rejected with ValueError"


def _fns():
    from distributed_shampoo.utils.shampoo_fsdp_distributor import FSDPDistributor
    from distributed_shampoo.utils.shampoo_hsdp_distributor import HSDPDistributor

    return {
        "fsdp": FSDPDistributor._split_tensor_block_recovery,
        "hsdp": HSDPDistributor._split_tensor_block_recovery,
    }


def check_huge(torch, fns):
    """indices beyond 2^53 (exact integer arithmetic is required; no tensor of that size is allocated - only the tiny shard):
    the decomposition of [s, e) is invariant under translation by whole leading slices, so the pieces for a huge offset must
    have the shapes of the pieces for the same range moved next to the origin (which the DP reference validates)."""
    out, n = [], 0
    for inner in ((3,), (35, 3), (5, 7), (2, 3, 4)):
        slice_n = prod(inner)
        for lead_off in (2 ** 53 + 1, 2 ** 60 + 3):
            for a in range(0, 2 * slice_n + 1, max(1, slice_n // 4)):
                for length in (1, slice_n - 1, slice_n, slice_n + 2, 2 * slice_n + 1):
                    if length <= 0:
                        continue
                    small_shape = (6,) + inner
                    big_shape = (lead_off + 6,) + inner
                    s0, e0 = slice_n + a, slice_n + a + length
                    if e0 > prod(small_shape):
                        continue
                    shift = (lead_off - 1) * slice_n
                    n += 1
                    sig = {}
                    for name, fn in fns.items():
                        try:
                            ref = tuple(tuple(t.shape) for t in fn(torch.zeros(length), torch.Size(small_shape), s0, e0))
                            got = tuple(tuple(t.shape) for t in fn(torch.zeros(length), torch.Size(big_shape), s0 + shift, e0 + shift))
                        except Exception as e:
                            out.append(({"huge": True, "inner": list(inner), "start": s0 + shift, "len": length, "copy": name}, f"{name} shape={big_shape} [{s0 + shift},{e0 + shift}): raised {type(e).__name__}: {str(e)[:80]}"))
                            continue
                        sig[name] = got
                        if got != ref:
                            out.append(({"huge": True, "inner": list(inner), "start": s0 + shift, "len": length, "copy": name}, f"{name} shape={big_shape} [{s0 + shift},{e0 + shift}): pieces {got}, the same range moved by whole leading slices to [{s0},{e0}) gives {ref}"))
                    if len(sig) == 2 and sig["fsdp"] != sig["hsdp"]:
                        out.append(({"huge": True, "inner": list(inner), "start": s0 + shift, "len": length, "copy": "both"}, f"copies disagree for shape={big_shape} [{s0 + shift},{e0 + shift}): {sig}"))
    return out, n


def run_unit(unit):
    import torch
    from .. import common

    fns = _fns()
    res = {"evals": 0, "transitions": 0, "states": [], "outcomes": set(), "nontrivial_count": 0, "violations": [], "samples": [], "stats": {"max_pieces": 0, "must_raise_checked": 0}}
    if unit.get("huge"):
        bad, n = check_huge(torch, fns)
        res["evals"] = res["transitions"] = n
        res["stats"]["huge_index_cases"] = n
        res["states"] = [common.h64("huge")]
        res["outcomes"] = [common.h64(len(bad))]
        for case, m in bad[:10]:
            res["violations"].append({"case": case, "msg": m, "kind": "huge"})
        return res
    for shape in unit["shapes"]:
        shape = tuple(shape)
        n = prod(shape) if shape else 1
        f, valid = min_cover_table(shape)
        # non-flat shard must be rejected
        for name, fn in fns.items():
            if n >= 2:
                try:
                    fn(torch.zeros(n).view(n // 2 if n % 2 == 0 else n, -1), torch.Size(shape), 0, n)
                    res["violations"].append({"case": {"shape": shape, "start": 0, "end": n, "copy": name, "nonflat": True}, "msg": f"{name}: non-flat shard accepted for shape {shape}", "kind": "nonflat"})
                except ValueError:
                    pass
                res["stats"]["must_raise_checked"] += 1
            # a 0-dimensional shard is not flat either
            try:
                fn(torch.zeros(()), torch.Size(shape), 0, 1)
                res["violations"].append({"case": {"shape": shape, "start": 0, "end": 1, "copy": name, "zerodim": True}, "msg": f"{name}: 0-dimensional shard accepted for shape {shape}", "kind": "zerodim"})
            except ValueError:
                pass
            except Exception as e:
                res["violations"].append({"case": {"shape": shape, "start": 0, "end": 1, "copy": name, "zerodim": True}, "msg": f"{name}: 0-dimensional shard raised {type(e).__name__} instead of ValueError", "kind": "zerodim"})
            res["stats"]["must_raise_checked"] += 1
        for start in range(n + 1):
            for end in range(start, n + 1):
                sigs = {}
                for name, fn in fns.items():
                    try:
                        msgs, npieces, sig = check_case(torch, fn, shape, start, end, f, valid)
                    except Exception as e:  # the routine must not raise on valid input
                        msgs, npieces, sig = [f"raised {type(e).__name__}: {e}"], -1, ("raised",)
                    if not msgs and (start + end) % 3 == 0 and end > start:
                        try:
                            m2, _, sig2 = check_case(torch, fn, shape, start, end, f, valid, strided=True)
                            if sig2 != sig and not m2:
                                m2 = [f"non-contiguous shard is split into {sig2}, the contiguous one into {sig}"]
                        except Exception as e:
                            m2 = [f"non-contiguous flat shard: raised {type(e).__name__}: {e}"]
                        msgs = m2
                        res["stats"]["strided_cases"] = res["stats"].get("strided_cases", 0) + 1
                    res["evals"] += 1
                    res["transitions"] += 1
                    sigs[name] = sig
                    for m in msgs[:2]:
                        res["violations"].append({"case": {"shape": shape, "start": start, "end": end, "copy": name}, "msg": f"{name} shape={shape} [{start},{end}): {m}", "kind": m[:25]})
                    res["stats"]["max_pieces"] = max(res["stats"]["max_pieces"], npieces)
                # a non-flat shard is rejected whatever the range is (the empty range included)
                k = end - start
                for name, fn in fns.items():
                    for vshape in ((1, k), (k, 1)) + (((0, 2, 2),) if k == 0 else ()):
                        bad = nonflat_accepted(torch, fn, shape, start, end, vshape)
                        res["stats"]["must_raise_checked"] += 1
                        if bad:
                            res["violations"].append({"case": {"shape": shape, "start": start, "end": end, "copy": name, "nonflat_view": list(vshape)}, "msg": f"{name} shape={shape} [{start},{end}): {bad}", "kind": "nonflat-range"})
                if sigs["fsdp"] != sigs["hsdp"]:
                    res["violations"].append({"case": {"shape": shape, "start": start, "end": end, "copy": "both"}, "msg": f"FSDP and HSDP copies disagree on shape={shape} [{start},{end}): {sigs['fsdp']} vs {sigs['hsdp']}", "kind": "copies"})
                res["states"].append(common.h64(shape, start, end))
                res["outcomes"].add(common.h64(sigs["fsdp"]))
                if len(sigs["fsdp"]) >= 2:
                    res["nontrivial_count"] += 1
                if len(res["samples"]) < 2 and len(sigs["fsdp"]) >= 3:
                    res["samples"].append({"shape": shape, "start": start, "end": end, "pieces": [list(s) for s in sigs["fsdp"]], "min_cover": f[end][start]})
        if len(res["violations"]) > 200:
            break
    res["outcomes"] = list(res["outcomes"])
    res["violations"] = res["violations"][:50]
    return res


def replay(case):
    import torch

    fns = _fns()
    if case.get("huge"):
        bad, _ = check_huge(torch, fns)
        return [m for c, m in bad if c == case]
    shape = tuple(case["shape"])
    n = prod(shape) if shape else 1
    names = ["fsdp", "hsdp"] if case.get("copy") == "both" else [case["copy"]]
    if case.get("zerodim"):
        try:
            fns[names[0]](torch.zeros(()), torch.Size(shape), 0, 1)
            return ["0-dimensional shard accepted"]
        except ValueError:
            return []
        except Exception as e:
            return [f"raised {type(e).__name__}"]
    if case.get("nonflat_view"):
        bad = nonflat_accepted(torch, fns[names[0]], shape, case["start"], case["end"], tuple(case["nonflat_view"]))
        return [bad] if bad else []
    if case.get("nonflat"):
        try:
            fns[names[0]](torch.zeros(n).view(n // 2 if n % 2 == 0 else n, -1), torch.Size(shape), 0, n)
            return ["non-flat shard accepted"]
        except ValueError:
            return []
    f, valid = min_cover_table(shape)
    out, sigs = [], {}
    for name in names:
        try:
            msgs, _, sig = check_case(torch, fns[name], shape, case["start"], case["end"], f, valid)
            if not msgs and case["end"] > case["start"]:
                msgs = check_case(torch, fns[name], shape, case["start"], case["end"], f, valid, strided=True)[0]
        except Exception as e:
            msgs, sig = [f"raised {type(e).__name__}: {e}"], ("raised",)
        sigs[name] = sig
        out += [f"{name}: {m}" for m in msgs]
    if len(names) == 2 and sigs["fsdp"] != sigs["hsdp"]:
        out.append(f"copies disagree: {sigs}")
    return out
