"""C06 - DDP Shampoo equals serial Shampoo, keeps replicas identical, and all ranks perform the same sequence of
process-group creations and collectives (no rank is ever left waiting).

SIM engine: the real DDPDistributor inside the real optimizer on W simulated ranks.  All mask histories up to the
depth bound (starvation histories included) x (W, group size) x communicate_params x communication dtype x optimizer
configurations on the canonical schedule, and ALL rank interleavings at visible operations up to a preemption bound on
core histories.  Oracles: no deadlock, trace oracles (creation sequences, per-group collective sequences, name
collisions), replicas bit-identical after every step, equality with the serial optimizer in which only the
communicated quantity is rounded, a single outcome over all explored schedules.
"""
from __future__ import annotations

import itertools
import json

from .. import common, distrun, seq, sim

ID = "C06"
TECHNIQUE = "stateless preemption-bounded exploration of all rank interleavings at collective/creation points of the real DDP distributor on simulated ranks (harness-owned transport and scheduler) x exhaustive gradient-presence histories; differential against the serial optimizer with rounding of the communicated quantity"
RULE = (
    "W in {1,2,3,4} (thorough: +6,8) x every divisor group size x communicate_params x comm dtype {FP32,FP16,BF16} x 4 optimizer configs x param dtype {f32,f64} x all mask histories of depth 2 over 3 "
    "parameters (64, incl. steps where all blocks of a rank lack gradients) + depth 3 over {all, none, single-absent} on the canonical schedule; all schedules with preemption bound <= B (1 quick, 2 thorough; 3 for W=2 in the thorough tier) "
    "for W <= 3 on core histories; two param groups. state = (history prefix, rank states digest) after each step; non-trivial = execution with >= 2 ranks and a mask change or a starved rank"
)
ASSUMPTIONS = [
    "the transport is a model: rendezvous semantics of torch's threaded process group, no partial failures, no real gloo/NCCL behaviour beyond the name-collision event",
    "get_device_mesh's process-wide functools.cache is replaced by a per-rank cache (each rank is a process in reality)",
    "rank-local segments touch only rank-private objects (checked: a single outcome over all explored schedules)",
]
TRUSTED = ["torch.testing._internal.distributed.multi_threaded_pg (data movement of collectives)", "mc.sim scheduler"]
EXHAUSTIVE = True

L0 = dict(shapes=[[3, 2], [3, 2], [5]], max_dim=3, merge=True)
LBIG = dict(shapes=[[3, 2], [3, 2], [5]], max_dim=2, merge=False)  # 2+2+3 = 7 blocks ... extended below


def opt_cfgs(seed):
    return [
        dict(precond=["shampoo", {}], graft=None, betas=[0.0, 1.0], lr=0.25, start=1),
        dict(precond=["shampoo", {}], graft=["adam", 0.5, 1e-1], betas=[0.5, 0.5], momentum=0.5, wd=0.5, lr=0.25, start=2),
        dict(precond=["soap", {}], graft=None, betas=[0.5, 0.5], lr=0.25, start=1),
        dict(precond=["soap", {"method": "qr"}], graft=["sgd"], betas=[0.5, 0.5], bias_corr=False, momentum=0.5, nesterov=True, lr=0.25, start=2),
    ]


def layout_for(gs):
    if gs <= 4:
        return dict(shapes=[[3, 2], [3, 2], [5]], max_dim=3, merge=True)  # 4 blocks, sizes with ties
    return dict(shapes=[[3, 2], [3, 2], [5]], max_dim=1, merge=False)  # 6+6+5 = 17 blocks of one element


def bounds(tier):
    return {"W": [1, 2, 3, 4] + ([6, 8] if tier == "thorough" else []), "preemption_bound": 1 if tier == "quick" else 2, "preemption_bound_W2": 1 if tier == "quick" else 3, "depth": 2}


def wg_pairs(tier):
    Ws = [1, 2, 3, 4] + ([6, 8] if tier == "thorough" else [])
    return [(W, g) for W in Ws for g in range(1, W + 1) if W % g == 0]


def work(tier, seed):
    units = []
    masks = seq.all_masks(3)
    h2 = [[["step", list(a)], ["step", list(b)]] for a, b in itertools.product(masks, repeat=2)]
    single = [[1, 1, 1], [0, 0, 0], [0, 1, 1], [1, 0, 1], [1, 1, 0]]
    h3 = [[["step", list(a)], ["step", list(b)], ["step", list(c)]] for a, b, c in itertools.product(single, repeat=3)]
    i = 0
    for (W, g), comm, cp, (oi, oc), pd in itertools.product(wg_pairs(tier), ["FP32", "FP16", "BF16"], [False, True], enumerate(opt_cfgs(seed)), ["f32", "f64"]):
        i += 1
        if tier == "quick" and (i + seed) % 12 != 0:
            continue
        cfg = seq.cfg_with(seed=seed, pdtype=pd, prec_dtype=pd, **layout_for(g), **oc)
        hs = h2 if W <= 4 else h2[::7]
        units.append({"kind": "canon", "cfg": cfg, "W": W, "g": g, "comm": comm, "cp": cp, "hists": hs})
        if tier == "thorough" and W <= 4 and oi in (1, 3) and comm == "FP32":
            units.append({"kind": "canon", "cfg": cfg, "W": W, "g": g, "comm": comm, "cp": cp, "hists": h3})
    # two param groups (two all-gathers per step)
    # (each group needs at least one block per rank of the distribution group: [p0,p1] and [p2] have 2 blocks each)
    for (W, g) in [(2, 2), (2, 1), (4, 2)]:
        for cp in (False, True):
            cfg = seq.cfg_with(seed=seed, groups=[{"params": [0, 1], "over": {}}, {"params": [2], "over": {"lr": 0.125}}], **L0, **opt_cfgs(seed)[1])
            units.append({"kind": "canon", "cfg": cfg, "W": W, "g": g, "comm": "FP32", "cp": cp, "hists": h2[:: (3 if tier == "quick" else 1)]})
    # mixed-precision parameter group (first parameter bfloat16, the others float32) with DEFAULT / FP32 communication:
    # the float32 parameters must not be rounded by the communication
    for (W, g) in [(2, 2), (2, 1), (4, 2)]:
        for comm, cp in itertools.product(["DEFAULT", "FP32"], [False, True]):
            for pdt in (["bf16", "f32", "f32"], ["f32", "bf16", "f32"]):
                cfg = seq.cfg_with(seed=seed, pdtypes=pdt, **L0, **opt_cfgs(seed)[1])
                units.append({"kind": "canon", "cfg": cfg, "W": W, "g": g, "comm": comm, "cp": cp, "hists": h2[:: (5 if tier == "quick" else 1)]})
    # a multi-block parameter FIRST, followed by single-block parameters (block offsets differ from parameter indices)
    L1 = dict(shapes=[[5], [3, 2], [3, 2]], max_dim=3, merge=True)
    for (W, g) in [(2, 2), (3, 3), (4, 2)] + ([(4, 4), (2, 1)] if tier == "thorough" else []):
        for comm, cp in itertools.product(["FP32", "BF16"], [False, True]):
            cfg = seq.cfg_with(seed=seed, **L1, **opt_cfgs(seed)[1 if cp else 0])
            units.append({"kind": "canon", "cfg": cfg, "W": W, "g": g, "comm": comm, "cp": cp, "hists": h2[:: (4 if tier == "quick" else 1)]})
    # parameters modified in place outside the optimizer between two steps: the next step starts from the current values
    hsc = [[["step", list(a)], ["scale", 0.5], ["step", list(b)]] for a, b in itertools.product([[1, 1, 1], [1, 0, 1], [0, 1, 1]], repeat=2)]
    for (W, g) in [(2, 2), (3, 3)] + ([(4, 2), (2, 1)] if tier == "thorough" else []):
        for comm, cp in itertools.product(["FP32", "BF16"], [False, True]):
            cfg = seq.cfg_with(seed=seed, **(L1 if cp else L0), **opt_cfgs(seed)[1])
            units.append({"kind": "canon", "cfg": cfg, "W": W, "g": g, "comm": comm, "cp": cp, "hists": hsc})
    # schedule exploration on core histories
    core = [
        [["step", [1, 1, 1]], ["step", [1, 1, 1]]],
        [["step", [1, 1, 1]], ["step", [1, 0, 1]]],
        [["step", [1, 0, 0]], ["step", [0, 1, 1]]],
        [["step", [0, 0, 1]], ["step", [0, 0, 0]], ["step", [1, 1, 0]]],
    ]
    bound = 1 if tier == "quick" else 2
    for (W, g) in [(2, 2), (2, 1), (3, 3), (3, 1)]:
        for oi, oc in enumerate(opt_cfgs(seed)):
            if tier == "quick" and oi not in (1,):
                continue
            for cp in (False, True):
                cfg = seq.cfg_with(seed=seed, **L0, **oc)
                for h in core:
                    units.append({"kind": "sched", "cfg": cfg, "W": W, "g": g, "comm": "BF16" if cp else "FP32", "cp": cp, "hists": [h], "bound": bound})
    if tier == "thorough":
        # two ranks, one optimizer configuration: every schedule with up to 3 deviations from the canonical order
        oc = opt_cfgs(seed)[1]
        for (W, g) in [(2, 2), (2, 1)]:
            for cp in (False, True):
                cfg = seq.cfg_with(seed=seed, **L0, **oc)
                for h in core[:3]:
                    units.append({"kind": "sched", "cfg": cfg, "W": W, "g": g, "comm": "BF16" if cp else "FP32", "cp": cp, "hists": [h], "bound": 3})
    return units


def check_exec(s, ser, cfg, W, what):
    """-> (msgs, outcome key)"""
    msgs = []
    if s.deadlock is not None:
        msgs.append(f"{what}: DEADLOCK - ranks left waiting: {s.deadlock}")
    for r, e in enumerate(s.errors):
        if e:
            msgs.append(f"{what}: rank {r} raised {e.splitlines()[0][:200]}")
    msgs += [f"{what}: {m}" for m in sim.trace_oracles(s)[:3]]
    key = None
    if s.deadlock is None and not any(s.errors):
        base = s.results[0]["steps"]
        for r in range(1, W):
            msgs += distrun.compare_steps(s.results[r]["steps"], base, f"{what}: rank {r} vs rank 0 (replicas must be bit-identical)")
        u = common.UNIT[cfg["pdtype"]]
        if cfg.get("pdtypes"):
            # mixed precision: bitwise for the float32 parameters is required through the twin; few-ulp of the coarsest dtype otherwise
            u = max(common.UNIT[d] for d in cfg["pdtypes"])
            for t, (pa, pb) in enumerate(zip(base, ser)):
                for i, (x, y) in enumerate(zip(pa, pb)):
                    ui = common.UNIT[cfg["pdtypes"][i]]
                    if not x.equal(y) and (x.double() - y.double()).abs().max().item() > 8 * ui * max(y.double().abs().max().item(), 1e-30):
                        msgs.append(f"{what}: rank 0 vs serial optimizer: parameter {i} ({cfg['pdtypes'][i]}) differs after step {t} by {(x.double() - y.double()).abs().max().item():.3e} (more than the rounding of the communicated quantity)")
                        break
        else:
            msgs += distrun.compare_steps(base, ser, f"{what}: rank 0 vs serial optimizer (only the communicated quantity rounded)", ulps=8, u=u)
        key = common.h64([common.digest_obj(x) for x in base])
    else:
        key = common.h64("fail", str(s.deadlock), [bool(e) for e in s.errors])
    return msgs, key


def run_case(cfg, W, g, comm, cp, hist, choices=(), bound=None):
    fn = distrun.ddp_program(cfg, hist, comm, g, cp)
    ser, _ = distrun.serial_with_rounding(cfg, hist, comm, cp)
    what = f"W={W} group={g} comm={comm} communicate_params={cp} hist={[e[1] for e in hist]}"
    if bound is None:
        s = sim.Sched(W).run(fn, choices)
        msgs, key = check_exec(s, ser, cfg, W, what)
        bit = int(not msgs and all(all(x.equal(y) for x, y in zip(a, b)) for a, b in zip(s.results[0]["steps"], ser))) if s.deadlock is None and not any(s.errors) else 0
        return msgs, {key}, 1, len(s.points), bit
    allmsgs, nexec, npoints = [], 0, 0
    bad_choice = None

    def chk(s):
        nonlocal nexec, npoints, bad_choice
        msgs, key = check_exec(s, ser, cfg, W, what)
        nexec += 1
        npoints += len(s.points)
        if msgs and not allmsgs:
            allmsgs.extend(msgs)
            bad_choice = [p[1] for p in s.points]
        return key

    r = sim.explore(W, fn, bound, chk, max_execs=20000)
    if not r["complete"]:
        raise sim.HarnessError(f"{what}: schedule exploration capped at 20000 executions")
    if len(r["outcomes"]) > 1 and not allmsgs:
        allmsgs.append(f"{what}: {len(r['outcomes'])} different outcomes over the explored schedules (result depends on timing)")
    return allmsgs, set(r["outcomes"]), nexec, npoints, 0, bad_choice


def run_unit(unit):
    res = {"evals": 0, "transitions": 0, "states": set(), "outcomes": set(), "nontrivial_count": 0, "violations": [], "samples": [],
           "stats": {"schedules_explored": 0, "canonical_runs": 0, "bit_equal_to_serial": 0, "starvation_histories": 0, "max_outcomes_per_history": 0}}
    cfg, W, g, comm, cp = unit["cfg"], unit["W"], unit["g"], unit["comm"], unit["cp"]
    for hist in unit["hists"]:
        try:
            if unit["kind"] == "canon":
                msgs, keys, nexec, npts, bit = run_case(cfg, W, g, comm, cp, hist)
                res["stats"]["canonical_runs"] += 1
                res["stats"]["bit_equal_to_serial"] += bit
                choices = []
            else:
                msgs, keys, nexec, npts, bit, choices = run_case(cfg, W, g, comm, cp, hist, bound=unit["bound"])
                res["stats"]["schedules_explored"] += nexec
                res["stats"]["max_outcomes_per_history"] = max(res["stats"]["max_outcomes_per_history"], len(keys))
        except sim.HarnessError as e:
            return {"harness_error": f"{e}", "arg": json.dumps(unit)[:300]}
        res["evals"] += nexec
        res["transitions"] += npts
        res["states"].update(keys)
        res["outcomes"].update(keys)
        ms = [e[1] for e in hist]
        if W >= 2 and any(a != b for a, b in zip(ms, ms[1:])):
            res["nontrivial_count"] += nexec
        if msgs:
            res["violations"].append({"case": {"cfg": cfg, "W": W, "g": g, "comm": comm, "cp": cp, "hist": hist, "choices": choices or []}, "msg": msgs[0][:500], "kind": ("deadlock" if "DEADLOCK" in msgs[0] else msgs[0].split(":")[-1][:25])})
            if len(res["violations"]) > 6:
                break
    res["samples"].append({"W": W, "group_size": g, "comm": comm, "communicate_params": cp, "history": unit["hists"][0], "kind": unit["kind"]})
    res["states"] = list(res["states"])
    res["outcomes"] = list(res["outcomes"])
    return res


def replay(case):
    out = run_case(case["cfg"], case["W"], case["g"], case["comm"], case["cp"], case["hist"], choices=tuple(case.get("choices") or ()))
    return out[0]
