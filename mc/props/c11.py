"""C11 - inverse roots are symmetric positive definite and finite on degenerate input.

ENUM engine: complete grid of degenerate spectra (zero matrix, rank-deficient, slightly negative eigenvalues, all
negative-tiny) x bases x scales x epsilon x roots x dtypes on the real eigendecomposition-based matrix_inverse_root
(with and without the stability option).  Structural invariants: finite, symmetric, positive definite, eigenvalues
<= eps^(-1/r), commutes with the input, orthogonally equivariant.  Must-raise for all small non-square / non-2D shapes.
"""
from __future__ import annotations

import itertools
import json
from fractions import Fraction

import numpy as np

from .. import common
from ..refs import matrices as mx

ID = "C11"
TECHNIQUE = "bounded-exhaustive grid enumeration of degenerate symmetric inputs on the real eigen-based matrix_inverse_root; structural invariants (finite, symmetric, PD, eigenvalue cap, commutation, orthogonal equivariance) + must-raise enumeration of all small non-square/non-2D shapes"
RULE = (
    "n in {1,2,3,4,5,8,16[,7,12,32,64 thorough]} x spectra {zero, rankdef, neg(-1e-3), neg(-1e-6), neg(-1e-9), all-negative-tiny} x bases x scale {1e-4,1,1e4} x eps (3 values per dtype, never below the dtype "
    "resolution of the scale) x roots {1,2,4,3/2,1/2,2/3,1001/997,317/211} x dtype {f32,f64} x {plain, enhance_stability, config carrying exponent_multiplier 1.82, eigen_decomp_offload_device cpu with and without enhance_stability}; equivariance under 6 orthogonal P per case; must-raise: all shapes (k,),(a,b) a!=b,(a,b,c) with entries <= 4 and numel > 1. "
    "state = the input tuple; non-trivial = input with a zero or negative eigenvalue"
)
ASSUMPTIONS = ["grid only", "c = 64 in all rounding bounds; strict positive definiteness is required where kappa^(1/r) * n * u * c < 1, otherwise positive semi-definiteness up to rounding"]
TRUSTED = ["numpy.linalg.eigvalsh float64"]
EXHAUSTIVE = True
CC = 64.0
# any positive rational root; the last two have a large denominator and are not close to a small rational
ROOTS = [Fraction(1), Fraction(2), Fraction(4), Fraction(3, 2), Fraction(1, 2), Fraction(2, 3), Fraction(1001, 997), Fraction(317, 211)]
EPS_REL = {"f32": [1e-1, 1e-3, 1e-6], "f64": [1e-1, 1e-6, 1e-10]}
SPECTRA = ["zero", "rankdef", "neg3", "neg6", "neg9", "allneg"]


def bounds(tier):
    return {"n": ns_for(tier)}


def ns_for(tier):
    # thorough adds odd / non-power-of-two sizes and the intermediate 32 next to 64
    return [1, 2, 3, 4, 5, 8, 16] + ([7, 12, 32, 64] if tier == "thorough" else [])


def lam_for(sp, n):
    if sp == "zero":
        return np.zeros(n)
    if sp == "rankdef":
        return mx.spectrum("rankdef", n) if n > 1 else np.zeros(1)
    if sp.startswith("neg"):
        lam = np.linspace(0.1, 1.0, n) if n > 1 else np.array([1.0])
        lam = lam.copy()
        lam[0] = -(10.0 ** -int(sp[3:]))
        return lam
    if sp == "allneg":
        return -np.linspace(1e-9, 1e-6, n)
    raise ValueError(sp)


def cases(tier):
    ns = ns_for(tier)
    for dtype in ("f32", "f64"):
        for n in ns:
            bases = mx.BASES if n > 1 else ["identity"]
            if n >= 16:
                bases = ["givens", "dct", "identity"]
            scales = [1e-4, 1.0, 1e4] + ([1e-40] if dtype == "f64" and n <= 4 else [])  # 1e-40: epsilon far below float32's range
            for sp, b, scale, er in itertools.product(SPECTRA, bases, scales, EPS_REL[dtype]):
                if tier == "quick" and n >= 8 and scale != 1.0:
                    continue
                yield dict(n=n, dtype=dtype, sp=sp, basis=b, scale=scale, eps_rel=er)


def work(tier, seed):
    cs = list(cases(tier))
    big = [[c] for c in cs if c["n"] >= 64]
    small = [c for c in cs if c["n"] < 64]
    units = [{"cases": ch} for ch in big] + [{"cases": ch} for ch in common.chunks(small, max(1, len(small) // 96))]
    units.append({"mustraise": True})
    return units


def check_input(torch, c, stats):
    import matrix_functions as mf
    from matrix_functions_types import EigenConfig

    out = []
    n, dtype = c["n"], c["dtype"]
    u = common.UNIT[dtype]
    dt = common.dtype_of(dtype)
    Q = mx.basis(c["basis"], n)
    lam = lam_for(c["sp"], n) * c["scale"]
    A64 = mx.assemble(Q, lam)
    A = torch.tensor(A64, dtype=dt)
    A = (A + A.T) / 2
    eps = c["eps_rel"] * c["scale"]
    An = A.double().numpy()
    nA = max(np.linalg.norm(An, 2), 1e-300)
    lmin = min(float(np.linalg.eigvalsh(An).min()), 0.0)
    kappa = (float(np.linalg.eigvalsh(An).max()) - lmin + eps) / eps
    Ps = [mx.basis("perm", n), mx.basis("householder", n), mx.basis("givens", n, 1), mx.basis("dct", n), mx.basis("perm", n, 1), mx.basis("givens", n, 3)] if n > 1 else []
    for r in ROOTS:
        # third variant: a config carrying exponent_multiplier - the caller folds the multiplier into `root`, the routine
        # itself must compute the root it was given
        for stab, mult, off in ((False, 1.0, ""), (True, 1.0, ""), (False, 1.82, ""), (False, 1.0, "cpu"), (True, 1.0, "cpu")):
            case = dict(c, root=[r.numerator, r.denominator], stab=stab)
            if mult != 1.0:
                case["mult"] = mult
            if off:
                case["offload"] = off
            cfgobj = EigenConfig(enhance_stability=stab, exponent_multiplier=mult, eigen_decomp_offload_device=off)
            A_in = A.clone()
            try:
                X = mf.matrix_inverse_root(A, root=r, root_inv_config=cfgobj, epsilon=eps)
            except Exception as e:
                out.append((case, f"raised {type(e).__name__}: {str(e)[:100]}"))
                continue
            stats["calls"] = stats.get("calls", 0) + 1
            if not torch.equal(A, A_in):
                out.append((case, "the routine modified its input matrix in place"))
                A.copy_(A_in)
            Xn = X.double().numpy()
            if X.shape != A.shape:
                out.append((case, f"result has shape {tuple(X.shape)}"))
                continue
            if not np.all(np.isfinite(Xn)):
                out.append((case, f"result is not finite: {Xn.reshape(-1)[:4].tolist()}"))
                continue
            nX = max(np.linalg.norm(Xn, 2), 1e-300)
            asym = np.max(np.abs(Xn - Xn.T)) / nX
            if not asym <= CC * u:
                out.append((case, f"result is not symmetric: max|X - X^T|/|X| = {asym:.2e}"))
            w = np.linalg.eigvalsh((Xn + Xn.T) / 2)
            cap = eps ** (-1.0 / float(r))
            strict = kappa ** (1.0 / float(r)) * n * u * CC < 1.0
            if strict and not w.min() > 0:
                out.append((case, f"result is not positive definite: smallest eigenvalue {w.min():.3e}"))
            elif not w.min() > -CC * n * u * nX:
                out.append((case, f"result has a negative eigenvalue {w.min():.3e} beyond rounding"))
            lim = cap * (1.0 + CC * n * u * kappa / float(r) + CC * common.UNIT['f32'] * abs(np.log(eps)) / float(r))
            stats["max_cap_ratio"] = max(stats.get("max_cap_ratio", 0.0), float(w.max() / cap))
            if not w.max() <= lim:
                out.append((case, f"largest eigenvalue {w.max():.6e} exceeds eps^(-1/r) = {cap:.6e} (limit {lim:.6e})"))
            comm = np.linalg.norm(An @ Xn - Xn @ An, 2) / (nA * nX)
            stats["max_comm_over_nu"] = max(stats.get("max_comm_over_nu", 0.0), comm / (n * u))
            if not comm <= CC * n * u:
                out.append((case, f"result does not commute with the input: |AX - XA|/(|A||X|) = {comm:.2e}"))
            if mult == 1.0:
                # all six rotations for the default config, two for the others
                for pi, P in enumerate(Ps if (not stab and not off) else Ps[:2]):
                    B64 = P @ An @ P.T
                    B = torch.tensor((B64 + B64.T) / 2, dtype=dt)
                    try:
                        Y = mf.matrix_inverse_root(B, root=r, root_inv_config=cfgobj, epsilon=eps).double().numpy()
                    except Exception as e:
                        out.append((dict(case, P=pi), f"raised {type(e).__name__} on the rotated input"))
                        continue
                    stats["calls"] = stats.get("calls", 0) + 1
                    if not np.all(np.isfinite(Y)):
                        out.append((dict(case, P=pi), "result on the rotated input is not finite"))
                        continue
                    d = np.linalg.norm(Y - P @ Xn @ P.T, 2) / nX
                    bound = CC * n * u * max(kappa, 1.0) / 1.0
                    stats["max_equiv_over_nukappa"] = max(stats.get("max_equiv_over_nukappa", 0.0), d / (n * u * max(kappa, 1.0)))
                    if not (d <= bound or not np.all(np.isfinite(Y)) and False):
                        out.append((dict(case, P=pi), f"not orthogonally equivariant: |f(PAP^T) - P f(A) P^T|/|f(A)| = {d:.2e} (bound {bound:.2e})"))
                    if not np.all(np.isfinite(Y)):
                        out.append((dict(case, P=pi), "result on the rotated input is not finite"))
    return out


def bad_shapes():
    for k in range(2, 5):
        yield (k,)
    for a, b in itertools.product(range(1, 5), repeat=2):
        if a != b and a * b > 1:
            yield (a, b)
    for s in itertools.product(range(1, 5), repeat=3):
        if s[0] * s[1] * s[2] > 1:
            yield s


def check_mustraise(torch):
    import matrix_functions as mf
    from matrix_functions_types import CoupledHigherOrderConfig, CoupledNewtonConfig, EigenConfig

    out, n = [], 0
    for shp in bad_shapes():
        for cfgobj in (EigenConfig(), EigenConfig(enhance_stability=True), CoupledNewtonConfig(), CoupledHigherOrderConfig()):
            for diag in (False, True):
                n += 1
                try:
                    mf.matrix_inverse_root(torch.ones(shp), root=Fraction(2), root_inv_config=cfgobj, epsilon=1e-3, is_diagonal=diag)
                    out.append(({"shape": list(shp), "cfg": type(cfgobj).__name__, "diag": diag}, f"input of shape {shp} accepted by matrix_inverse_root ({type(cfgobj).__name__}, is_diagonal={diag})"))
                except ValueError:
                    pass
                except Exception as e:
                    out.append(({"shape": list(shp), "cfg": type(cfgobj).__name__, "diag": diag}, f"input of shape {shp}: raised {type(e).__name__} instead of ValueError"))
    return out, n


def run_unit(unit):
    import torch

    res = {"evals": 0, "transitions": 0, "states": set(), "outcomes": set(), "nontrivial_count": 0, "violations": [], "samples": [], "stats": {}}
    if unit.get("mustraise"):
        bad, n = check_mustraise(torch)
        res["evals"] = res["transitions"] = n
        res["stats"]["mustraise_cases"] = n
        res["states"].add(common.h64("mustraise"))
        for case, m in bad[:10]:
            res["violations"].append({"case": dict(case, mustraise=True), "msg": m, "kind": "mustraise"})
    else:
        stats = {}
        for c in unit["cases"]:
            bad = check_input(torch, c, stats)
            res["evals"] += 1
            res["states"].add(common.h64(json.dumps(c, sort_keys=True)))
            res["nontrivial_count"] += 1
            for case, m in bad[:3]:
                res["violations"].append({"case": case, "msg": f"{m} [{json.dumps(case)}]", "kind": m[:25]})
        res["transitions"] = stats.pop("calls", 0)
        res["stats"].update(stats)
        res["samples"].append(dict(unit["cases"][0], roots=[str(r) for r in ROOTS]))
    res["violations"] = res["violations"][:25]
    res["states"] = list(res["states"])
    res["outcomes"] = [common.h64(len(res["violations"]))]
    return res


def replay(case):
    import torch

    if case.get("mustraise"):
        bad, _ = check_mustraise(torch)
        return [m for c, m in bad if c["shape"] == case["shape"] and c["cfg"] == case["cfg"] and c["diag"] == case["diag"]]
    c = {k: v for k, v in case.items() if k not in ("root", "stab", "P", "mult", "offload")}
    bad = check_input(torch, c, {})
    return [m for cs, m in bad if all(cs.get(k) == case.get(k) for k in ("root", "stab", "P", "mult", "offload"))]
