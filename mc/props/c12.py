"""C12 - eigenvector routines return orthonormal, ordered, diagonalising bases.

ENUM engine: complete grid spectra x bases x sizes x dtypes on the real matrix_eigenvectors: eigh method, diagonal
flag, 1x1, and the QR method with estimates {zero, exact eigenbasis, exact with permuted columns, exact rotated by a
Givens angle, identity} x max_iterations x tolerances.  Oracles: orthonormality, diagonalisation and ascending order
(eigh), zero-estimate fallback equals eigh, ascending Rayleigh quotients, staircase test of the orthogonal-iteration
update, fixed point (up to column signs) on simple non-zero eigen-directions.
"""
from __future__ import annotations

import itertools
import json

import numpy as np

from .. import common
from ..refs import matrices as mx
from .c03 import staircase_ok

ID = "C12"
TECHNIQUE = "bounded-exhaustive grid enumeration of symmetric PSD inputs x eigenvector estimates x QR settings on the real matrix_eigenvectors; structural oracles (orthonormal, diagonalising, ordered, orthogonal-iteration staircase, fixed point)"
RULE = (
    "n in {1,2,3,4,5,8,16[,6,7,12,32,64 thorough]} x spectra {distinct, repeated_pair, equal, one_zero, rankdef} x bases {identity, perm, householder, givens, dct} x dtype {f32,f64}; eigh, diagonal flag; QR with estimate in "
    "{zero, exact, exact-permuted, rotated(1e-3), rotated(1e-6), rotated(0.3), rotated(1.2), identity} x max_iterations {1,2,5,50} x tolerance {0,1e-5,1e-1,1e-9}. state = the input tuple; non-trivial = QR case with a non-zero estimate"
)
ASSUMPTIONS = ["grid only", "on degenerate subspaces only 'still an orthonormal basis spanning the iteration' is required", "c = 64 in rounding bounds; staircase zero threshold 1e-3 (f32) / 1e-8 (f64) of max|M|"]
TRUSTED = ["numpy float64 linear algebra", "mc.props.c03.staircase_ok"]
EXHAUSTIVE = True
CC = 64.0
SPECTRA = ["distinct", "repeated_pair", "equal", "one_zero", "rankdef"]
# rotd*: rotation of the exact basis in DESCENDING eigenvalue order - the stable fixed point of orthogonal iteration, where the
# relative change really shrinks from step to step (tolerance-driven stops happen here)
ESTIMATES = ["zero", "exact", "exact_perm", "rot1e-3", "rot1e-6", "rotd1e-3", "rotd1e-6", "rot0.3", "rot1.2", "identity"]
ITERS = [1, 2, 5, 50]
QTOLS = [0.0, 1e-5, 1e-1, 1e-9]  # 1e-9: below float32 resolution, meaningful for float64


EXTREME = {"f32": [3e19, 1e-25], "f64": [1e160, 1e-160]}


def bounds(tier):
    return {"n": ns_for(tier), "extreme_scales": EXTREME}


def ns_for(tier):
    # thorough adds odd / non-power-of-two sizes (5, 6, 7, 12) and the intermediate 32 next to 64
    return [1, 2, 3, 4, 5, 8, 16] + ([6, 7, 12, 32, 64] if tier == "thorough" else [])


def cases(tier):
    ns = ns_for(tier)
    for dtype in ("f32", "f64"):
        for n in ns:
            bases = mx.BASES if 1 < n < 16 else (["givens", "identity", "dct"] if n >= 16 else ["identity"])
            for sp, b in itertools.product(SPECTRA, bases):
                yield dict(n=n, dtype=dtype, sp=sp, basis=b)
            # extreme but finite magnitudes (squares of the entries over/underflow the dtype): eigenvectors are scale invariant
            if 2 <= n <= 4:
                for sp, b, scale in itertools.product(SPECTRA[:2], ["dct", "perm"], EXTREME[dtype]):
                    yield dict(n=n, dtype=dtype, sp=sp, basis=b, scale=scale)


def work(tier, seed):
    cs = list(cases(tier))
    return [{"cases": ch} for ch in common.chunks(cs, 1 if tier == "thorough" else 2)]


def estimate(kind, Q, n):
    if kind == "zero":
        return np.zeros((n, n))
    if kind == "identity":
        return np.eye(n)
    if kind == "exact":
        return Q.copy()
    if kind == "exact_perm":
        return Q[:, ::-1].copy()
    if kind.startswith("rotd"):
        return estimate("rot" + kind[4:], Q[:, ::-1].copy(), n)
    th = float(kind[3:])
    if n < 2:
        return Q.copy()
    G = np.eye(n)
    c, s = np.cos(th), np.sin(th)
    G[0, 0] = c
    G[1, 1] = c
    G[0, 1] = -s
    G[1, 0] = s
    if n >= 4:
        G[n - 2, n - 2] = c
        G[n - 1, n - 1] = c
        G[n - 2, n - 1] = -s
        G[n - 1, n - 2] = s
    return Q @ G


def check_input(torch, c, stats):
    import matrix_functions as mf
    from matrix_functions_types import EighEigenvectorConfig, QRConfig

    out = []
    n, dtype = c["n"], c["dtype"]
    u = common.UNIT[dtype]
    dt = common.dtype_of(dtype)
    Qc = mx.basis(c["basis"], n)
    lam = mx.spectrum(c["sp"], n) * c.get("scale", 1.0)
    A64 = mx.assemble(Qc, lam)
    A = torch.tensor(A64, dtype=dt)
    A = (A + A.T) / 2
    An = A.double().numpy()
    nA = max(np.max(np.abs(An)), 1e-300)
    tol_o = CC * n * u

    def orth(Q):
        return float(np.max(np.abs(Q.T @ Q - np.eye(n))))

    # ---- eigh
    case = dict(c, method="eigh")
    try:
        Q = mf.matrix_eigenvectors(A, eigenvector_computation_config=EighEigenvectorConfig()).double().numpy()
        stats["calls"] = stats.get("calls", 0) + 1
        if n == 1:
            if not np.array_equal(Q, np.ones((1, 1))):
                out.append((case, f"1x1 input does not yield one: {Q.tolist()}"))
        else:
            if not orth(Q) <= tol_o:
                out.append((case, f"eigh basis not orthonormal: {orth(Q):.2e}"))
            D = Q.T @ An @ Q
            off = np.max(np.abs(D - np.diag(np.diag(D)))) / nA
            if not off <= tol_o:
                out.append((case, f"eigh basis does not diagonalise A: off-diagonal {off:.2e}"))
            dd = np.diag(D)
            if not np.all(np.diff(dd) >= -tol_o * nA):
                out.append((case, f"eigenvalues not in ascending order: {dd.tolist()[:6]}"))
    except Exception as e:
        out.append((case, f"raised {type(e).__name__}: {str(e)[:100]}"))
    Qeigh = mf.matrix_eigenvectors(A, eigenvector_computation_config=EighEigenvectorConfig())
    # ---- diagonal flag
    if c["basis"] == "identity":
        case = dict(c, method="diag")
        Q = mf.matrix_eigenvectors(A, eigenvector_computation_config=EighEigenvectorConfig(), is_diagonal=True)
        stats["calls"] = stats.get("calls", 0) + 1
        want = torch.ones_like(A) if n == 1 else torch.eye(n, dtype=dt)
        if not torch.equal(Q, want):
            out.append((case, "diagonal-flagged input does not yield the identity"))
        # a caller may refresh its stored basis in place (state.copy_(new)); a later call must still yield the identity
        Q.mul_(3.0)
        Q2 = mf.matrix_eigenvectors(A, eigenvector_computation_config=EighEigenvectorConfig(), is_diagonal=True)
        if not torch.equal(Q2, want):
            out.append((case, "diagonal-flagged input does not yield the identity after an earlier result was modified in place (shared tensor returned)"))
        # the flag takes precedence for every eigenvector method, also for a diagonal that is not sorted ascending
        Ad = torch.tensor(np.diag(lam[::-1].copy()), dtype=dt)
        for est_kind in ("zero", "identity", "perm"):
            E = torch.zeros(n, n, dtype=dt) if est_kind == "zero" else torch.tensor(mx.basis(est_kind, n), dtype=dt)
            for cfgq in (QRConfig(), QRConfig(max_iterations=5, tolerance=0.0)):
                Qd = mf.matrix_eigenvectors(Ad, eigenvectors_estimate=E, eigenvector_computation_config=cfgq, is_diagonal=True)
                stats["calls"] = stats.get("calls", 0) + 1
                if not torch.equal(Qd, want):
                    out.append((dict(c, method="diag_qr", est=est_kind, iters=cfgq.max_iterations), "diagonal-flagged input does not yield the identity with the QR method"))
    # ---- QR
    wtrue, Vtrue = np.linalg.eigh(An)
    gaps_ok = []
    for j in range(n):
        others = np.delete(wtrue, j)
        simple = (len(others) == 0) or (np.min(np.abs(others - wtrue[j])) > 1e-2 * max(abs(wtrue).max(), 1e-300))
        gaps_ok.append(simple and abs(wtrue[j]) > 1e-2 * max(abs(wtrue).max(), 1e-300))
    for est, iters, qtol in itertools.product(ESTIMATES, ITERS, QTOLS):
        if n == 1 and est not in ("zero", "exact"):
            continue
        case = dict(c, method="qr", est=est, iters=iters, qtol=qtol)
        E64 = estimate(est, Vtrue, n)
        E = torch.tensor(E64, dtype=dt)
        try:
            Qt = mf.matrix_eigenvectors(A, eigenvectors_estimate=E, eigenvector_computation_config=QRConfig(max_iterations=iters, tolerance=qtol))
        except Exception as e:
            out.append((case, f"raised {type(e).__name__}: {str(e)[:100]}"))
            continue
        stats["calls"] = stats.get("calls", 0) + 1
        Q = Qt.double().numpy()
        if n == 1:
            if not np.array_equal(Q, np.ones((1, 1))):
                out.append((case, "1x1 input does not yield one"))
            continue
        if est == "zero":
            if not torch.equal(Qt, Qeigh):
                # not bit-identical to the eigh-configured call: still acceptable if it is an eigendecomposition result
                # (orthonormal, diagonalising, ascending) - the property does not fix the code path
                D0 = Q.T @ An @ Q
                if not (orth(Q) <= tol_o and np.max(np.abs(D0 - np.diag(np.diag(D0)))) / nA <= tol_o and np.all(np.diff(np.diag(D0)) >= -tol_o * nA)):
                    out.append((case, "QR with a zero estimate does not fall back to the eigendecomposition result"))
                stats["zero_estimate_not_bit_identical"] = stats.get("zero_estimate_not_bit_identical", 0) + 1
            continue
        stats["qr_nonzero"] = stats.get("qr_nonzero", 0) + 1
        if not np.all(np.isfinite(Q)):
            out.append((case, "QR result not finite"))
            continue
        if not orth(Q) <= tol_o:
            out.append((case, f"QR basis not orthonormal: {orth(Q):.2e}"))
            continue
        rq = np.einsum("ij,ik,kj->j", Q, An, Q)
        if not np.all(np.diff(rq) >= -tol_o * nA):
            out.append((case, f"columns not ordered by ascending Rayleigh quotient: {rq.tolist()[:6]}"))
        E0 = E.double().numpy()
        ztol = 1e-3 if dtype == "f32" else 1e-8
        ok = False
        An_n = An / nA
        P = E0.copy()
        for k in range(1, iters + 1):
            P = An_n @ P
            P = P / max(np.max(np.abs(P)), 1e-300)
            good, lead = staircase_ok(Q.T @ P, ztol)
            if good:
                ok = True
                break
        if not ok:
            out.append((case, f"result is not an orthogonal-iteration update of the estimate for any k <= {iters} (staircase test, leading indices {lead})"))
        # exact iteration count: float64 reference of the stopping rule (relative change of the estimate > tolerance),
        # decided only where every reference error is a factor 10 away from the tolerance and the spectrum is simple
        if c["sp"] == "distinct" and est.startswith("rot") and iters > 1:
            Qr, kref, decided = E0.copy(), 0, True
            err = np.inf
            while kref < iters and err > qtol:
                Qn = np.linalg.qr(An @ Qr)[0]
                err = np.linalg.norm(Qr - Qn) / np.linalg.norm(Qr)
                if qtol > 0 and 0.1 * qtol < err < 10 * qtol:
                    decided = False
                Qr = Qn
                kref += 1
            amp = (np.abs(wtrue).max() / np.abs(wtrue).min()) ** kref * n * u
            if decided and amp < 1e-3:
                rqr = np.einsum("ij,ik,kj->j", Qr, An, Qr)
                Qr = Qr[:, np.argsort(rqr)]
                dev = max(min(np.linalg.norm(Q[:, j] - Qr[:, j]), np.linalg.norm(Q[:, j] + Qr[:, j])) for j in range(n))
                stats["exact_k_checked"] = stats.get("exact_k_checked", 0) + 1
                # near the descending (stable) order errors contract instead of growing by cond^k
                thr = (1e-4 if dtype == "f32" else 1e-9) if est.startswith("rotd") else max(1e3 * amp, 1e-4 if dtype == "f32" else 1e-9)
                if not dev <= thr:
                    out.append((case, f"result differs from the orthogonal iteration stopped by the configured rule (reference stops after k={kref} of max {iters}, tolerance {qtol}): column deviation {dev:.2e}"))
        if est in ("exact", "exact_perm"):
            # Fixed point (up to column signs).  Orthogonal iteration amplifies the rounding error of the estimate by
            # (lam_max/lam_min)^k per column, and for a singular A the QR factor of A @ Q is not unique, so the clause is
            # decidable only where cond^iters * u is small; elsewhere it is counted as an observation.
            wabs = np.abs(wtrue)
            cond = wabs.max() / wabs.min() if wabs.min() > 0 else np.inf
            amp = cond ** iters * n * u if np.isfinite(cond) else np.inf
            if amp < 1e-4:
                stats["fixed_point_checked"] = stats.get("fixed_point_checked", 0) + 1
                for j in range(n):
                    if gaps_ok[j]:
                        al = abs(float(Q[:, j] @ Vtrue[:, j]))
                        if not al >= 1 - max(1e3 * amp, 1e3 * n * u):
                            out.append((case, f"exact eigenbasis is not a fixed point: column {j} has |<q_j, v_j>| = {al:.6f} (cond^iters*n*u = {amp:.1e})"))
                            break
            else:
                stats["fixed_point_undecidable"] = stats.get("fixed_point_undecidable", 0) + 1
                moved = any(gaps_ok[j] and abs(float(Q[:, j] @ Vtrue[:, j])) < 0.999 for j in range(n))
                stats["observed_not_fixed_when_singular_or_unstable"] = stats.get("observed_not_fixed_when_singular_or_unstable", 0) + int(moved)
    return out


def run_unit(unit):
    import torch

    res = {"evals": 0, "transitions": 0, "states": set(), "outcomes": set(), "nontrivial_count": 0, "violations": [], "samples": [], "stats": {}}
    stats = {}
    for c in unit["cases"]:
        bad = check_input(torch, c, stats)
        res["evals"] += 1
        res["states"].add(common.h64(json.dumps(c, sort_keys=True)))
        for case, m in bad[:4]:
            res["violations"].append({"case": case, "msg": f"{m} [{json.dumps(case)}]", "kind": m[:25]})
    res["transitions"] = stats.get("calls", 0)
    res["nontrivial_count"] = stats.get("qr_nonzero", 0)
    res["stats"].update(stats)
    res["samples"].append(dict(unit["cases"][0], estimates=ESTIMATES, iters=ITERS, qtols=QTOLS))
    res["violations"] = res["violations"][:25]
    res["states"] = list(res["states"])
    res["outcomes"] = [common.h64(len(res["violations"]))]
    return res


def replay(case):
    import torch

    c = {k: case[k] for k in ("n", "dtype", "sp", "basis", "scale") if k in case}
    bad = check_input(torch, c, {})
    keys = [k for k in ("method", "est", "iters", "qtol") if k in case]
    return [m for cs, m in bad if all(cs.get(k) == case.get(k) for k in keys)]
