"""C09 - checkpoint save/restore at any step resumes the exact trajectory.

SEQ engine with crash points: for every history up to the depth bound and EVERY stop point k in 0..T the optimizer's
distributed state dict is saved (torch.save -> bytes -> torch.load), a freshly constructed optimizer over a copy of
the parameters loads it, and the continuation must be bit-identical (parameters, every tensor of the state dict,
param_groups) to the uninterrupted run after every subsequent step.  Plus: double restore, must-raise table for every
single-entry deletion at the plain-dict levels, unknown parameter, group mismatch, flat-key injectivity.
"""
from __future__ import annotations

import io
import itertools
import json

from .. import common, seq

ID = "C09"
TECHNIQUE = "explicit exploration of every (history, stop point) pair up to a depth bound on the real optimizer: save/serialise/restore into a fresh optimizer and bitwise comparison of the continuation with the uninterrupted run; exhaustive single-entry deletion of the saved state"
RULE = (
    "histories over masks {all, none, first-only, second-only(+third)} of depth T (3 quick / 4 thorough) x every stop point k in 0..T x configurations "
    "(Shampoo eigen/Newton, SOAP eigh/QR x grafting types x momentum/filtering x layouts incl. blocks without Kronecker factors, two param groups, lr edit before the stop, "
    "bf16/f64 dtypes); double restore (k<k') at depth 3; state = digest(params, distributed_state_dict); non-trivial = stop point with 0<k<T"
)
ASSUMPTIONS = [
    "'entry' in the must-raise clause = a key of the nested plain dictionaries of optimizer.state[param] (block, per-block quantity, step); deletions inside a serialised OptimizerModule are reported as observations only",
    "serial (non-DTensor) layout here; the DDP/DTensor layout is exercised in C06's simulator",
]
TRUSTED = ["torch.save/torch.load", "torch.equal-level digests (blake2b over tensor bytes)"]
EXHAUSTIVE = True


def bounds(tier):
    return {"depth": 3 if tier == "quick" else 4, "stop_points": "every k in 0..T", "configs": len(configs(tier, 0))}


def configs(tier, seed):
    out = []
    pcs = [["shampoo", {}], ["shampoo", {"solver": "newton"}], ["soap", {}], ["soap", {"method": "qr", "iters": 2}]]
    grafts = [None, ["sgd"], ["adagrad", 1e-1], ["rmsprop", 0.5, 1e-1], ["adam", 0.5, 1e-1]]
    i = 0
    for pc in pcs:
        for g in grafts:
            for rich in (False, True):
                i += 1
                if tier == "quick" and (i + seed) % 4 != 0:
                    continue
                kw = dict(precond=pc, graft=g, betas=[0.0, 0.5], lr=0.25, freq=2, start=2)
                if rich:
                    kw.update(betas=[0.5, 0.5], beta3=0.25, momentum=0.5, wd=0.5, nesterov=(i % 2 == 0))
                out.append(seq.cfg_with(seed=seed, **kw))
    rich = dict(betas=[0.5, 0.5], momentum=0.5, wd=0.5, lr=0.25, freq=1, start=2)
    # blocks without Kronecker factors: 0-D parameter without merging; all dims ignored
    for pc in (["shampoo", {}], ["soap", {}]):
        out.append(seq.cfg_with(seed=seed, shapes=[[], [3, 2]], merge=False, precond=pc, graft=["adam", 0.5, 1e-1], **rich))
        out.append(seq.cfg_with(seed=seed, shapes=[[3, 2], [4]], max_dim=1024, merge=False, precond=[pc[0], {"ignored": [0, 1]}], graft=["adagrad", 1e-1], **rich))
        out.append(seq.cfg_with(seed=seed, shapes=[[4], [3, 2]], max_dim=1024, merge=False, precond=[pc[0], {"ignored": [0]}], graft=["rmsprop", 0.5, 1e-1], **rich))
        out.append(seq.cfg_with(seed=seed, shapes=[[3, 2], [4]], max_dim=1024, merge=False, precond=[pc[0], {"ignored": [0, 1]}], graft=None, betas=[0.0, 0.5], lr=0.25, freq=1, start=1))
    # two parameter groups with different hyper-parameters
    for pc in (["shampoo", {}], ["soap", {"method": "qr"}]):
        out.append(seq.cfg_with(seed=seed, precond=pc, graft=["adam", 0.5, 1e-1], groups=[{"params": [0, 2], "over": {}}, {"params": [1], "over": {"lr": 0.125, "wd": 0.25, "momentum": 0.25}}], **rich))
    # dtypes
    # (gradient scale 0.3: with dyadic gradients the float32 factor matrices would be exactly representable in bfloat16 and a
    # checkpoint path that rounds state through the parameter dtype would go unnoticed)
    out.append(seq.cfg_with(seed=seed, pdtype="bf16", prec_dtype="f32", precond=["soap", {"method": "qr"}], graft=["adam", 0.5, 1e-1], gscale=0.3, **rich))
    out.append(seq.cfg_with(seed=seed, pdtype="f32", prec_dtype="f64", precond=["shampoo", {}], graft=["rmsprop", 0.5, 1e-1], gscale=0.3, **rich))
    out.append(seq.cfg_with(seed=seed, pdtype="f64", prec_dtype="f64", precond=["shampoo", {}], graft=["sgd"], bias_corr=False, **rich))
    # inverse root override / exponent multiplier / larger frequency
    out.append(seq.cfg_with(seed=seed, precond=["shampoo", {"exp_mult": 0.5}], inv_root_override=[1, 2, 3], graft=None, betas=[0.25, 0.5], lr=0.25, freq=3, start=3))
    return out


def masks_for(n):
    ms = [[1] * n, [0] * n, [1] + [0] * (n - 1)]
    if n >= 2:
        ms.append([0, 1] + [0] * (n - 2))
    if n >= 3:
        ms.append([0, 0, 1])
    return ms


def work(tier, seed):
    depth = 3 if tier == "quick" else 4
    units = []
    for cfg in configs(tier, seed):
        ms = masks_for(len(cfg["shapes"]))
        for first in ms:
            units.append({"cfg": cfg, "depth": depth, "first": first})
        units.append({"cfg": cfg, "mustraise": True})
    # DDP (DTensor) state layout on simulated ranks: every stop point of every history
    ms3 = [[1, 1, 1], [0, 0, 0], [1, 0, 1], [0, 1, 0]]
    hs = [[["step", list(a)], ["step", list(b)], ["step", list(c)]] for a, b, c in itertools.product(ms3, repeat=3)]
    ddp_cfgs = [
        seq.cfg_with(seed=seed, precond=["shampoo", {}], graft=["adam", 0.5, 1e-1], betas=[0.5, 0.5], momentum=0.5, wd=0.5, lr=0.25, freq=2, start=2),
        seq.cfg_with(seed=seed, precond=["soap", {"method": "qr"}], graft=None, betas=[0.5, 0.5], lr=0.25, freq=1, start=2),
    ]
    for ci, c in enumerate(ddp_cfgs):
        for (W, g, comm, cp) in [(2, 2, "FP32", False), (2, 2, "BF16", True), (4, 2, "FP32", False), (2, 1, "FP32", True)]:
            if tier == "quick" and (W, g, comm, cp) not in [(2, 2, "FP32", False), (2, 2, "BF16", True)]:
                continue
            for ch in common.chunks(hs if tier == "thorough" else hs[ci::4], 8):
                units.append({"cfg": c, "ddp": True, "W": W, "g": g, "comm": comm, "cp": cp, "hists": ch})
    return units


# ----------------------------------------------------------------------------- save / restore


def names(params):
    return [(f"p{i}", p) for i, p in enumerate(params)]


def save(opt, params):
    import torch

    sd = opt.distributed_state_dict(key_to_param=iter(names(params)))
    buf = io.BytesIO()
    torch.save(sd, buf)
    return buf.getvalue()


def load_bytes(b):
    import torch

    return torch.load(io.BytesIO(b), weights_only=False)


def altered_ctor_cfg(cfg):
    """same optimizer, but constructed with other values for the hyper-parameters that live in param_groups and are
    restored by load_distributed_state_dict (a resumed job is often constructed from defaults / a newer config)."""
    c = dict(cfg)
    c["lr"] = cfg["lr"] * 0.5
    if cfg["wd"] != 0.0:
        c["wd"] = cfg["wd"] * 0.5
    c["dampening"] = 0.25 if cfg["dampening"] != 0.25 else 0.5
    c["nesterov"] = not cfg["nesterov"]
    c["decoupled"] = not cfg["decoupled"]
    c["freq"], c["start"] = cfg["freq"] + 1, max(cfg["start"], cfg["freq"] + 1) + 1
    if cfg["betas"][0] != 0.0:
        c["beta3"] = 0.125
    return c


def restore(cfg, blob, param_values, alt=False):
    import torch

    dt = common.dtype_of(cfg["pdtype"])
    params = [torch.nn.Parameter(v.detach().clone()) for v in param_values]
    _, opt = seq.build(altered_ctor_cfg(cfg) if alt else cfg, params=params)
    opt.load_distributed_state_dict(load_bytes(blob), key_to_param=iter(names(params)))
    return params, opt


def full_digest(opt, params):
    sd = opt.distributed_state_dict(key_to_param=iter(names(params)))
    parts = {"params": [common.digest_obj(p.data) for p in params]}
    parts["state"] = {pk: {k: common.digest_obj(v) for k, v in st.items()} for pk, st in sd["state"].items()}
    parts["groups"] = {gk: common.h64(sorted((k, repr(v)) for k, v in g.items())) for gk, g in sd["param_groups"].items()}
    return parts


def diff_digest(a, b):
    for i, (x, y) in enumerate(zip(a["params"], b["params"])):
        if x != y:
            return f"parameter p{i} differs"
    for pk in a["state"]:
        if pk not in b["state"]:
            return f"state of {pk} missing"
        for k in a["state"][pk]:
            if k not in b["state"][pk]:
                return f"state entry {pk}{k} missing after resume"
            if a["state"][pk][k] != b["state"][pk][k]:
                return f"state entry {pk}{k} differs"
        for k in b["state"][pk]:
            if k not in a["state"][pk]:
                return f"state entry {pk}{k} only exists after resume"
    if a["groups"] != b["groups"]:
        return "param_groups differ"
    return None


FREEZE = [False]  # freeze/unfreeze schedule: a parameter is frozen (requires_grad=False) exactly while it has no gradient


def apply_event(opt, params, cfg, ev, t):
    if ev[0] == "set":
        seq.apply_set(opt, None, ev)
        return t
    if FREEZE[0]:
        for p, m in zip(params, ev[1]):
            p.requires_grad_(bool(m))
    seq.set_grads(params, cfg, t, ev[1])
    opt.step()
    return t + 1


def count_tensors(o):
    import torch

    if isinstance(o, torch.Tensor):
        return 1
    if isinstance(o, dict):
        return sum(count_tensors(v) for v in o.values())
    if isinstance(o, (list, tuple)):
        return sum(count_tensors(v) for v in o)
    if hasattr(o, "__dict__"):
        return count_tensors(vars(o))
    return 0


def check_history(cfg, hist, stops=None, double=False, alt=False, freeze=False):
    """Uninterrupted run A with a snapshot at every stop point; then every restore-and-continue run B."""
    FREEZE[0] = bool(freeze)
    try:
        return _check_history(cfg, hist, stops, double, alt)
    finally:
        FREEZE[0] = False


def _check_history(cfg, hist, stops=None, double=False, alt=False):
    import torch

    params, opt = seq.build(cfg)
    snaps, digs = [], []
    t = 0
    msgs = []
    try:
        for k in range(len(hist) + 1):
            blob = save(opt, params)
            snaps.append((blob, [p.detach().clone() for p in params], t))
            digs.append(full_digest(opt, params))
            # flat-key injectivity: number of flat keys = number of tensors held in optimizer.state
            sd = load_bytes(blob)
            for (pk, p) in names(params):
                nflat, nt = len(sd["state"][pk]), count_tensors(opt.state[p])
                if nflat != nt:
                    msgs.append(f"stop {k}: saved state of {pk} has {nflat} flat entries but the optimizer holds {nt} tensors for it")
            if k < len(hist):
                t = apply_event(opt, params, cfg, hist[k], t)
    except Exception as e:
        return [f"uninterrupted run raised {type(e).__name__}: {str(e)[:150]}"], [], 0
    if msgs:
        return msgs[:3], [], 0
    nruns = 0
    state_digs = [common.h64(json.dumps(d, sort_keys=True)) for d in digs]
    for k in (stops if stops is not None else range(len(hist) + 1)):
        blob, pv, tk = snaps[k]
        try:
            p2, o2 = restore(cfg, blob, pv, alt=alt)
            d = diff_digest(digs[k], full_digest(o2, p2))
            if d:
                msgs.append(f"stop {k}: right after load: {d}")
            t2 = tk
            for j in range(k, len(hist)):
                t2 = apply_event(o2, p2, cfg, hist[j], t2)
                d = diff_digest(digs[j + 1], full_digest(o2, p2))
                if d:
                    msgs.append(f"stop {k}, after event {j} {hist[j]}: {d} (resumed run vs uninterrupted run)")
                    break
                if double and j + 1 < len(hist):
                    # second restore from the resumed run at k' = j+1 (start from a non-initial, restored state)
                    p3, o3 = restore(cfg, save(o2, p2), [p.detach().clone() for p in p2])
                    t3 = t2
                    for j2 in range(j + 1, len(hist)):
                        t3 = apply_event(o3, p3, cfg, hist[j2], t3)
                        d = diff_digest(digs[j2 + 1], full_digest(o3, p3))
                        if d:
                            msgs.append(f"stops {k} and {j + 1}, after event {j2}: {d} (double restore)")
                            break
                    nruns += 1
        except Exception as e:
            msgs.append(f"stop {k}: save/restore/continue raised {type(e).__name__}: {str(e)[:150]}")
        nruns += 1
        if msgs:
            break
    return msgs[:3], state_digs, nruns


# ----------------------------------------------------------------------------- must-raise table


def must_raise(cfg):
    """Every single deletion at the plain-dict levels of a saved parameter's state must raise KeyError; unknown parameter
    -> KeyError; group count / key mismatch -> ValueError.  Returns (msgs, n_cases, observations)."""
    import torch

    params, opt = seq.build(cfg)
    t = 0
    n = len(params)
    for m in ([1] * n, [1] * n):
        t = apply_event(opt, params, cfg, ["step", m], t)
    blob = save(opt, params)
    pv = [p.detach().clone() for p in params]
    msgs, ncases = [], 0
    obs = {"inner_deletions_raise": 0, "inner_deletions_silent": 0}

    def attempt(mutate):
        sd = load_bytes(blob)
        mutate(sd)
        p2 = [torch.nn.Parameter(v.clone()) for v in pv]
        _, o2 = seq.build(cfg, params=p2)
        try:
            o2.load_distributed_state_dict(sd, key_to_param=iter(names(p2)))
            return None
        except Exception as e:
            return type(e).__name__

    sd0 = load_bytes(blob)
    for pk, st in sd0["state"].items():
        paths = set()
        for fk in st:
            path = json.loads(fk)
            for L in (1, 2):
                if len(path) >= L:
                    paths.add(tuple(path[:L]))
        for pre in sorted(paths, key=repr):
            def mut(sd, pk=pk, pre=pre):
                for fk in list(sd["state"][pk]):
                    if tuple(json.loads(fk)[: len(pre)]) == pre:
                        del sd["state"][pk][fk]
            r = attempt(mut)
            ncases += 1
            if r != "KeyError":
                msgs.append(f"deleting saved entry {pk}:{list(pre)} -> load {'succeeded silently' if r is None else 'raised ' + r}, expected KeyError")
        # observations only: single flat keys below the plain-dict levels
        for fk in st:
            if len(json.loads(fk)) > 2:
                r = attempt(lambda sd, pk=pk, fk=fk: sd["state"][pk].pop(fk))
                obs["inner_deletions_raise" if r else "inner_deletions_silent"] += 1
    r = attempt(lambda sd: sd["state"].__setitem__("unknown_param", dict(next(iter(sd["state"].values())))))
    ncases += 1
    if r != "KeyError":
        msgs.append(f"state for an unknown parameter name -> {r}, expected KeyError")
    r = attempt(lambda sd: sd["param_groups"].__setitem__("extra/group", dict(next(iter(sd["param_groups"].values())))))
    ncases += 1
    if r != "ValueError":
        msgs.append(f"additional param group in the checkpoint -> {r}, expected ValueError")

    def rename(sd):
        k = next(iter(sd["param_groups"]))
        sd["param_groups"][k + "_x"] = sd["param_groups"].pop(k)

    r = attempt(rename)
    ncases += 1
    if r != "ValueError":
        msgs.append(f"param group key mismatch -> {r}, expected ValueError")
    r = attempt(lambda sd: None)
    ncases += 1
    if r is not None:
        msgs.append(f"unmodified checkpoint failed to load: {r}")
    if cfg.get("groups") and len(cfg["groups"]) == 2:
        # same number of groups, same first parameter of every group, but one parameter moved to the other group
        g0, g1 = cfg["groups"]
        if len(g0["params"]) >= 2:
            moved = g0["params"][-1]
            cfg2 = dict(cfg, groups=[dict(g0, params=g0["params"][:-1]), dict(g1, params=g1["params"] + [moved])])
            p2 = [torch.nn.Parameter(v.clone()) for v in pv]
            _, o2 = seq.build(cfg2, params=p2)
            try:
                o2.load_distributed_state_dict(load_bytes(blob), key_to_param=iter(names(p2)))
                rr = None
            except Exception as e:
                rr = type(e).__name__
            ncases += 1
            if rr != "ValueError":
                msgs.append(f"checkpoint of groups {[g['params'] for g in cfg['groups']]} loaded into groups {[g['params'] for g in cfg2['groups']]} -> {rr}, expected ValueError")
    return msgs, ncases, obs


def ddp_program(cfg, hist, g, comm, cp):
    """per rank: uninterrupted run with a snapshot (deepcopy of the DTensor state dict) at every stop point, then for every
    stop point a fresh optimizer (fresh process groups, created in the same order on all ranks) that loads the snapshot
    and continues; returns the list of mismatch messages."""

    def fn(rank, W):
        import copy

        import torch
        from distributed_shampoo.shampoo_types import DDPShampooConfig
        from .. import distrun

        def mk(params=None):
            dc = DDPShampooConfig(communication_dtype=distrun.comm_enum(comm), num_trainers_per_group=g, communicate_params=cp)
            return seq.build(cfg, distributed_config=dc, params=params)

        params, opt = mk()
        snaps, digs, t, msgs = [], [], 0, []
        for k in range(len(hist) + 1):
            sd = copy.deepcopy(opt.distributed_state_dict(key_to_param=iter(names(params))))
            snaps.append((sd, [p.detach().clone() for p in params], t))
            digs.append(full_digest(opt, params))
            if k < len(hist):
                t = apply_event(opt, params, cfg, hist[k], t)
        for k in range(len(hist) + 1):
            sd, pv, tk = snaps[k]
            p2 = [torch.nn.Parameter(v.clone()) for v in pv]
            _, o2 = mk(p2)
            o2.load_distributed_state_dict(sd, key_to_param=iter(names(p2)))
            d = diff_digest(digs[k], full_digest(o2, p2))
            if d:
                msgs.append(f"rank {rank} stop {k}: right after load: {d}")
            t2 = tk
            for j in range(k, len(hist)):
                t2 = apply_event(o2, p2, cfg, hist[j], t2)
                d = diff_digest(digs[j + 1], full_digest(o2, p2))
                if d and not msgs:
                    msgs.append(f"rank {rank} stop {k}, after event {j} {hist[j]}: {d} (resumed DDP run vs uninterrupted run)")
        sd = opt.distributed_state_dict(key_to_param=iter(names(params)))
        blocks = {pk: sorted({json.loads(fk)[0] for fk in st if json.loads(fk)[0] != "step"}) for pk, st in sd["state"].items()}
        return {"msgs": msgs, "digs": [common.h64(json.dumps(x, sort_keys=True)) for x in digs], "blocks": blocks}

    return fn


def check_ddp(cfg, hist, W, g, comm, cp):
    from .. import sim

    s = sim.Sched(W).run(ddp_program(cfg, hist, g, comm, cp))
    what = f"DDP W={W} group={g} comm={comm} communicate_params={cp} hist={hist}"
    msgs = []
    if s.deadlock is not None:
        msgs.append(f"{what}: DEADLOCK {s.deadlock}")
    for r, e in enumerate(s.errors):
        if e:
            msgs.append(f"{what}: rank {r} raised {e.splitlines()[0][:200]}")
    if not msgs:
        for r in range(W):
            msgs += [f"{what}: {m}" for m in s.results[r]["msgs"][:1]]
        # keys unique per parameter and block ACROSS the ranks of a group (a consolidated checkpoint keeps one tensor per key)
        _, sopt = seq.build(cfg)
        for grp in range(W // g):
            ranks = list(range(grp * g, (grp + 1) * g))
            for pi, p in enumerate(sopt.param_groups[0]["params"] if not cfg.get("groups") else [q for G in sopt.param_groups for q in G["params"]]):
                pk = f"p{pi}"
                nblocks = len([k for k in sopt.state[p] if k != "step"])
                seen = {}
                for r in ranks:
                    for b in s.results[r]["blocks"].get(pk, []):
                        if b in seen:
                            msgs.append(f"{what}: state key '{b}' of parameter {pk} is written by rank {seen[b]} and by rank {r} (keys must be unique per parameter and block)")
                        seen[b] = r
                if not msgs and len(seen) != nblocks:
                    msgs.append(f"{what}: group {grp} saves {len(seen)} distinct block keys for parameter {pk}, which has {nblocks} blocks")
    digs = [d for r in range(W) if s.results[r] for d in s.results[r]["digs"]]
    return msgs[:3], digs, len(s.points)


def run_unit(unit):
    cfg = unit["cfg"]
    res = {"evals": 0, "transitions": 0, "states": set(), "outcomes": set(), "nontrivial_count": 0, "violations": [], "samples": [],
           "stats": {"restore_runs": 0, "mustraise_cases": 0, "inner_deletions_raise": 0, "inner_deletions_silent": 0, "double_restores": 0}}
    if unit.get("ddp"):
        for hist in unit["hists"]:
            msgs, digs, npts = check_ddp(cfg, hist, unit["W"], unit["g"], unit["comm"], unit["cp"])
            res["evals"] += (len(hist) + 1) * unit["W"]
            res["transitions"] += npts
            res["states"].update(digs)
            res["stats"]["ddp_restore_runs"] = res["stats"].get("ddp_restore_runs", 0) + (len(hist) + 1) * unit["W"]
            res["nontrivial_count"] += len(hist)
            if msgs:
                res["violations"].append({"case": {"cfg": cfg, "hist": hist, "ddp": [unit["W"], unit["g"], unit["comm"], unit["cp"]]}, "msg": f"{msgs[0]} [cfg {brief(cfg)}]", "kind": "ddp"})
        res["samples"].append({"ddp": [unit["W"], unit["g"]], "cfg": brief(cfg), "history": unit["hists"][0]})
    elif unit.get("mustraise"):
        msgs, n, obs = must_raise(cfg)
        res["evals"] += n
        res["transitions"] += n
        res["stats"]["mustraise_cases"] += n
        for k, v in obs.items():
            res["stats"][k] += v
        res["states"].add(common.h64("mr", json.dumps(cfg, sort_keys=True)))
        for m in msgs[:3]:
            res["violations"].append({"case": {"cfg": cfg, "mustraise": True}, "msg": f"{m} [cfg {brief(cfg)}]", "kind": "mustraise"})
    else:
        depth = unit["depth"]
        ms = masks_for(len(cfg["shapes"]))
        for rest in itertools.product(ms, repeat=depth - 1):
            steps = [["step", list(unit["first"])]] + [["step", list(m)] for m in rest]
            variants = [steps]
            if rest and rest[0] == ms[0]:
                variants.append(steps[:1] + [["set", 0, "lr", 0.125]] + steps[1:])
            for hist in variants:
                double = depth <= 3 or all(m == ms[0] for m in rest[1:])
                msgs, digs, nruns = check_history(cfg, hist, double=double)
                res["evals"] += nruns
                res["transitions"] += len(hist) * max(1, nruns)
                res["stats"]["restore_runs"] += nruns
                res["stats"]["double_restores"] += int(double)
                res["states"].update(digs)
                if digs:
                    res["outcomes"].add(digs[-1])
                res["nontrivial_count"] += max(0, len(hist) - 1)
                if msgs:
                    res["violations"].append({"case": {"cfg": cfg, "hist": hist}, "msg": f"{msgs[0]} [cfg {brief(cfg)}]", "kind": msgs[0].split(":")[-1][:25]})
                if not msgs and hist is steps and any(not all(m) for m in [unit["first"]] + list(rest)):
                    # the same history under a freeze / unfreeze schedule (frozen while without gradient)
                    m3, _, n3 = check_history(cfg, hist, freeze=True)
                    res["evals"] += n3
                    res["stats"]["restore_runs_frozen_params"] = res["stats"].get("restore_runs_frozen_params", 0) + n3
                    if m3:
                        res["violations"].append({"case": {"cfg": cfg, "hist": hist, "freeze": True}, "msg": f"{m3[0]} (parameters are frozen - requires_grad=False - while they have no gradient) [cfg {brief(cfg)}]", "kind": "freeze"})
                if msgs:
                    pass
                elif not cfg.get("groups") and hist is steps and all(m == rest[0] for m in rest):
                    # same history, but the fresh optimizer is constructed with other restorable hyper-parameters
                    m2, _, n2 = check_history(cfg, hist, alt=True)
                    res["evals"] += n2
                    res["stats"]["restore_runs_altered_ctor"] = res["stats"].get("restore_runs_altered_ctor", 0) + n2
                    if m2:
                        res["violations"].append({"case": {"cfg": cfg, "hist": hist, "alt": True}, "msg": f"{m2[0]} (fresh optimizer constructed with other lr/wd/dampening/nesterov/decoupled/frequency/start/beta3; load must restore them) [cfg {brief(cfg)}]", "kind": "alt"})
            if len(res["violations"]) > 6:
                break
        res["samples"].append({"cfg": brief(cfg), "history": steps, "stop_points": list(range(depth + 1))})
    res["states"] = list(res["states"])
    res["outcomes"] = list(res["outcomes"])
    return res


def brief(cfg):
    return json.dumps({k: v for k, v in cfg.items() if seq.DEFAULT.get(k, "__") != v}, sort_keys=True)


def replay(case):
    if case.get("ddp"):
        W, g, comm, cp = case["ddp"]
        return check_ddp(case["cfg"], case["hist"], W, g, comm, cp)[0]
    if case.get("mustraise"):
        return must_raise(case["cfg"])[0]
    if case.get("freeze"):
        return check_history(case["cfg"], case["hist"], freeze=True)[0]
    return check_history(case["cfg"], case["hist"], double=not case.get("alt"), alt=bool(case.get("alt")))[0]
