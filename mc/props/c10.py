"""C10 - matrix inverse root is accurate for every solver, root and dtype.

ENUM engine: complete grid size x spectrum family x basis family x scale x root x epsilon x dtype x solver on the real
matrix_inverse_root against a spectral oracle: float64 eigh of the ROUNDED input for float32, the closed form of the
construction Q diag(lam) Q^T for float64 (cross-validated against 50-digit mpmath on a subset).
Bound:  |X - X*|_F / |X*|_F  <=  C n u kappa(A + eps I)  +  tol_solver  +  (1/r) u32 max|ln(lam + eps)|.
"""
from __future__ import annotations

import itertools
import json
from fractions import Fraction

import numpy as np

from .. import common
from ..refs import matrices as mx

ID = "C10"
TECHNIQUE = "bounded-exhaustive grid enumeration of symmetric PSD inputs (size x spectrum x basis x scale x root x epsilon x dtype x solver) on the real matrix_inverse_root against a float64 / closed-form spectral oracle with the error bound of the statement"
RULE = (
    "n in {1,2,3,4,5,8,16[,6,7,12,24,32,48,64,100,128 thorough]} x spectra {equal, geometric(cond 10^k), one_tiny, clustered, rankdef, linear} x bases {identity, perm, householder, givens, dct} x scale {1e-6,1,1e6} x "
    "roots {1,2,4,8,3,6,3/2,4/3,8/3[,5,7 for n <= 3]} x eps {1e-2,1e-6,1e-12}*scale x dtype {f32,f64} x solver {eigen, eigen+stability, eigen with a config carrying exponent_multiplier, higher-order with rel_epsilon 1e-2 (spectral two-sided bound), newton(1e-6), newton(1e-10), higher-order(2), higher-order(3)}; "
    "complete product for n <= 8 (<= 5 quick), larger n with reduced axes. state = the input tuple; non-trivial = condition number > 10"
)
ASSUMPTIONS = [
    "accuracy is established on the grid only",
    "C = 32 frozen; iterative solvers are held to the accuracy bound only when they report CONVERGED (Newton) / return without REACHED_MAX_ITERS (higher order) and kappa*u <= 1e-2",
    "float64 oracle = closed form of the construction (validated against 50-digit mpmath on a subset)",
]
TRUSTED = ["numpy.linalg.eigh float64", "mpmath (50 digits) for the oracle cross-check"]
EXHAUSTIVE = True
C_BOUND = 32.0
U32 = 2.0 ** -24

# epsilon is never below the dtype's resolution of the scale (the property's domain)
EPS_REL = {"f32": [1e2, 1.0, 1e-2, 1e-4, 1e-6], "f64": [1e2, 1.0, 1e-2, 1e-6, 1e-12]}
# below the dtype's resolution of the scale (e.g. the default epsilon 1e-12 with float32 factors): only the direct
# (eigendecomposition) solvers are exercised there, against the closed form of the construction with the true kappa
EPS_BELOW = {"f32": [1e-12, 1e-18], "f64": [1e-24]}
SOLVERS = ["eigen", "eigen_stab", "eigen_mult", "newton6", "newton10", "ho2", "ho3"]
REL_EPS = 1e-2  # CoupledHigherOrderConfig.rel_epsilon of the relative-ridge part
ROOTS = [Fraction(1), Fraction(2), Fraction(4), Fraction(8), Fraction(3, 2), Fraction(4, 3), Fraction(8, 3), Fraction(3), Fraction(6)]
# further integer roots that are not powers of two (order-3 tensors use 6; inv_root_override may be anything): small n only
ODD_ROOTS = [Fraction(5), Fraction(7)]  # p <= 8: beyond that the float64 evaluation of X^p itself loses the residual bound (measured: 12 -> 2.4x, 16 -> 40x)
# what Fraction(root / exponent_multiplier) produces for multipliers that are not dyadic: huge numerator/denominator.
# Only the direct solvers are run on these (the coupled iterations would need matrix powers with p ~ 1e15).
REL_ROOTS = [Fraction(2), Fraction(4), Fraction(3, 2)]
BIG_ROOTS = [Fraction(2 / 1.37), Fraction(4 / 1.821), Fraction(2 / 0.7)]


def bounds(tier):
    return {"full_product_n_max": 5 if tier == "quick" else 8, "n_max": 16 if tier == "quick" else 128, "C": C_BOUND}


def solver_cfg(name):
    from matrix_functions_types import CoupledHigherOrderConfig, CoupledNewtonConfig, EigenConfig

    return {
        "eigen": EigenConfig(),
        "eigen_stab": EigenConfig(enhance_stability=True),
        # the caller folds exponent_multiplier into `root`; the routine must compute the root it is given
        "eigen_mult": EigenConfig(exponent_multiplier=1.82),
        "newton6": CoupledNewtonConfig(tolerance=1e-6),
        "newton10": CoupledNewtonConfig(tolerance=1e-10),
        "ho2": CoupledHigherOrderConfig(order=2, rel_epsilon=0.0, tolerance=1e-8),
        "ho3": CoupledHigherOrderConfig(order=3, rel_epsilon=0.0, tolerance=1e-8),
    }[name]


def spectra_for(dtype):
    ks = [1, 3, 6] if dtype == "f32" else [1, 6, 12]
    out = [("equal", 1.0)]
    out += [("geometric", 10.0 ** k) for k in ks]
    out += [("one_tiny", 10.0 ** ks[1]), ("clustered", 10.0 ** ks[0]), ("rankdef", 1.0), ("linear", 10.0 ** ks[0]), ("zero", 1.0)]
    return out


def cases(tier):
    nfull = [1, 2, 3, 4, 5] if tier == "quick" else [1, 2, 3, 4, 5, 6, 7, 8]
    nbig = [8, 16] if tier == "quick" else [12, 16, 24, 32, 48, 64, 100, 128]
    for dtype in ("f32", "f64"):
        for n in nfull:
            for (sp, cond), b, scale, eps_rel in itertools.product(spectra_for(dtype), mx.BASES, [1e-6, 1.0, 1e6], EPS_REL[dtype]):
                if n == 1 and b != "identity":
                    continue
                if sp == "zero" and b != "identity":
                    continue
                yield dict(n=n, dtype=dtype, sp=sp, cond=cond, basis=b, scale=scale, eps_rel=eps_rel)
            for (sp, cond), b, scale, eps_rel in itertools.product([("rankdef", 1.0), ("one_tiny", 1e3), ("geometric", 1e3)], mx.BASES, [1.0, 1e3, 1e6], EPS_BELOW[dtype]):
                if n > 1:
                    yield dict(n=n, dtype=dtype, sp=sp, cond=cond, basis=b, scale=scale, eps_rel=eps_rel, below=True)
        for n in nbig:
            for (sp, cond) in spectra_for(dtype):
                for b, scale, eps_rel in [("givens", 1.0, 1e-2), ("dct", 1e6, 1e-6), ("householder", 1e-6, 1e-2), ("identity", 1.0, EPS_REL[dtype][-1]), ("perm", 1.0, 1e-6)]:
                    yield dict(n=n, dtype=dtype, sp=sp, cond=cond, basis=b, scale=scale, eps_rel=eps_rel)


def work(tier, seed):
    cs = list(cases(tier))
    big = [c for c in cs if c["n"] >= 64]
    small = [c for c in cs if c["n"] < 64]
    units = [{"cases": [c]} for c in big]
    k = max(1, len(small) // 160)
    units += [{"cases": ch} for ch in common.chunks(small, k)]
    units.append({"oracle_check": True})
    units.append({"diag_flag": True})
    return units


# ----------------------------------------------------------------------------- one input, all roots and solvers


def make_input(torch, c):
    Q = mx.basis(c["basis"], c["n"])
    lam = mx.spectrum(c["sp"], c["n"], c["cond"]) * c["scale"]
    A64 = mx.assemble(Q, lam)
    dt = common.dtype_of(c["dtype"])
    A = torch.tensor(A64, dtype=dt)
    A = (A + A.T) / 2
    return A, Q, lam


def oracle(A, Q, lam, eps, r, dtype, closed=False):
    e = -1.0 / float(r)
    if dtype == "f32" and not closed:
        w, V = np.linalg.eigh(A.double().numpy())
        w = w - min(w.min(), 0.0) + eps
        return (V * w ** e) @ V.T, w
    w = lam + eps
    return mx.spectral_fn(Q, w, lambda x: x ** e), w


def check_input(torch, c, stats):
    import matrix_functions as mf

    out = []
    A, Q, lam = make_input(torch, c)
    n, dtype = c["n"], c["dtype"]
    u = common.UNIT[dtype]
    eps = c["eps_rel"] * c["scale"]
    below = bool(c.get("below"))
    A_before = A.clone()
    for r in ROOTS + (ODD_ROOTS if c["n"] <= 3 else []) + (BIG_ROOTS if (c["n"] <= 5 and not below) else []):
        Xs, w = oracle(A, Q, lam, eps, r, dtype, closed=below)
        kappa = float(w.max() / w.min())
        nx = np.linalg.norm(Xs)
        expo_term = (1.0 / float(r)) * U32 * float(np.max(np.abs(np.log(w))))
        for s in SOLVERS:
            if s.startswith("newton") and r.denominator != 1:
                continue
            if r.denominator > 1000 and not s.startswith("eigen"):
                continue
            if below and s.startswith("newton"):
                continue
            case = dict(c, root=[r.numerator, r.denominator], solver=s)
            cfgobj = solver_cfg(s)
            flag = None
            try:
                if n == 1:
                    X = mf.matrix_inverse_root(A, root=r, root_inv_config=cfgobj, epsilon=eps)
                elif s.startswith("newton"):
                    X, M, flag, it, err = mf._matrix_inverse_root_newton(A, root=r.numerator, epsilon=eps, max_iterations=cfgobj.max_iterations, tolerance=cfgobj.tolerance)
                    Xpub = mf.matrix_inverse_root(A, root=r, root_inv_config=cfgobj, epsilon=eps)
                    if n > 1 and not bool((X.eq(Xpub) | (X.isnan() & Xpub.isnan())).all()):
                        out.append((case, "public matrix_inverse_root and the Newton routine disagree"))
                elif s.startswith("ho"):
                    if True:
                        X, M, flag, it, err = mf._matrix_inverse_root_higher_order(A, root=r, rel_epsilon=0.0, abs_epsilon=eps, max_iterations=cfgobj.max_iterations, tolerance=cfgobj.tolerance, order=cfgobj.order)
                else:
                    X = mf.matrix_inverse_root(A, root=r, root_inv_config=cfgobj, epsilon=eps)
            except ArithmeticError:
                stats["ho_raised"] = stats.get("ho_raised", 0) + 1
                if not s.startswith("ho"):
                    out.append((case, "raised ArithmeticError"))
                continue
            except Exception as e:
                out.append((case, f"raised {type(e).__name__}: {str(e)[:100]}"))
                continue
            stats["calls"] = stats.get("calls", 0) + 1
            if not torch.equal(A, A_before):
                out.append((case, "the routine modified its input matrix in place"))
                A.copy_(A_before)
            if s.startswith("ho") and n > 1 and r.denominator == 1:
                # the guard, recomputed exactly as specified in the working precision: whenever the routine returns,
                # |A_eps X^p - I|_max <= 0.1 (a NaN residual is not <= 0.1)
                Ar_t = A + eps * torch.eye(n, dtype=A.dtype)
                rw = torch.linalg.vector_norm(Ar_t @ torch.linalg.matrix_power(X, r.numerator) - torch.eye(n, dtype=A.dtype), torch.inf)
                stats["ho_guard_checked"] = stats.get("ho_guard_checked", 0) + 1
                if not bool(rw <= 0.1):
                    out.append((case, f"higher-order solver returned although its residual |A_eps X^p - I| = {float(rw):.3e} exceeds the guard 0.1 (flag {flag.name if flag else None})"))
                    continue
            if below and s.startswith("ho"):
                continue  # below the resolution only the guard (above) is claimed for the iterative solver
            Xn = X.double().numpy()
            iterative = s.startswith("newton") or s.startswith("ho")
            well = kappa * u <= 1e-2  # region in which the iterative solvers are held to their post-conditions
            if iterative and n > 1 and not well:
                stats["iterative_outside_region"] = stats.get("iterative_outside_region", 0) + 1
                continue
            if not np.all(np.isfinite(Xn)):
                out.append((case, "result is not finite"))
                continue
            rel = float(np.linalg.norm(Xn - Xs) / nx)
            fname = None if flag is None else flag.name
            if iterative and n > 1:
                p = r.numerator
                Ar = A.double().numpy() + eps * np.eye(n)
                if s.startswith("newton"):
                    if fname == "CONVERGED":
                        resid = float(np.max(np.abs(np.linalg.matrix_power(Xn, p) @ Ar - np.eye(n))))
                        lim = 8 * cfgobj.tolerance + C_BOUND * p * n * u * kappa
                        stats["newton_converged"] = stats.get("newton_converged", 0) + 1
                        if not resid <= lim:
                            out.append((case, f"Newton reports CONVERGED but |X^p (A+eps I) - I|_max = {resid:.2e} > {lim:.2e} (tolerance {cfgobj.tolerance})"))
                        if float(np.max(np.abs(M.double().numpy() - np.eye(n)))) > cfgobj.tolerance:
                            out.append((case, "Newton reports CONVERGED but |M - I|_inf exceeds the tolerance"))
                else:
                    q = r.denominator
                    if q > 1:
                        wv, V = np.linalg.eigh((Xn + Xn.T) / 2)
                        Y = (V * np.abs(wv) ** (1.0 / q)) @ V.T
                    else:
                        Y = Xn
                    resid = float(np.max(np.abs(Ar @ np.linalg.matrix_power(Y, p) - np.eye(n))))
                    stats["max_ho_resid"] = max(stats.get("max_ho_resid", 0.0), resid)
                    if not resid <= 0.1 + 1e-3 + C_BOUND * n * u * kappa:
                        out.append((case, f"higher-order solver returned a result whose residual {resid:.3f} exceeds its guard 0.1"))
                claim = kappa * u <= 1e-2 and (fname == "CONVERGED" if s.startswith("newton") else fname in ("CONVERGED", "EARLY_STOP"))
                # |M - I|_max <= tol  =>  |X - X*|_F / |X*|_F <= (n / p) tol (entrywise -> Frobenius); factor 2 margin
                tol_solver = max(8.0, 2.0 * n / r.numerator) * max(cfgobj.tolerance, 0.0)
                if s.startswith("ho") and fname == "EARLY_STOP":
                    tol_solver = 0.0
            else:
                claim, tol_solver = True, 0.0
            if claim:
                bound = C_BOUND * n * u * kappa + tol_solver + expo_term
                ratio = rel / bound
                key = "max_ratio_" + s
                stats[key] = max(stats.get(key, 0.0), ratio)
                if not rel <= bound:
                    out.append((case, f"relative error {rel:.3e} exceeds the bound {bound:.3e} (kappa {kappa:.2e}, n {n}, {dtype}, flag {fname})"))
        # relative ridge of the higher-order solver: "adds rel_epsilon * lambda_max * I ... where lambda_max is an upper bound on
        # the maximum eigenvalue; max(rel_epsilon * lambda_max, abs_epsilon) when both are given".  Any upper bound between
        # lambda_max and n * lambda_max is accepted (infinity norm, Frobenius norm and trace all are): the eigenvalues of X must
        # lie between those of the inverse roots for the smallest and the largest admissible ridge.
        if n > 1 and not below and r in REL_ROOTS:
            from matrix_functions_types import CoupledHigherOrderConfig

            case = dict(c, root=[r.numerator, r.denominator], solver="ho_rel")
            An = A.double().numpy()
            la = np.linalg.eigvalsh(An)
            lmax = float(la.max())
            e_lo, e_hi = max(REL_EPS * lmax, eps), max(REL_EPS * n * lmax, eps)
            if lmax > 0 and la.min() + e_lo > 0:
                kap = (lmax + e_lo) / (float(la.min()) + e_lo)
                try:
                    Xr = mf.matrix_inverse_root(A, root=r, root_inv_config=CoupledHigherOrderConfig(order=3, rel_epsilon=REL_EPS, tolerance=1e-8), epsilon=eps)
                    Xr = Xr.double().numpy()
                    stats["ho_rel_checked"] = stats.get("ho_rel_checked", 0) + 1
                    stats["calls"] = stats.get("calls", 0) + 1
                    wX = np.sort(np.linalg.eigvalsh((Xr + Xr.T) / 2))[::-1]
                    e = -1.0 / float(r)
                    hi, lo = (np.sort(la) + e_lo) ** e, (np.sort(la) + e_hi) ** e
                    delta = C_BOUND * n * u * kap + 8 * 1e-8 * max(1.0, n / r.numerator) + (1.0 / float(r)) * U32 * float(np.max(np.abs(np.log(np.sort(la) + e_lo))))
                    if not np.all(np.isfinite(Xr)):
                        out.append((case, "result with a relative ridge is not finite"))
                    elif np.any(wX > hi * (1 + delta)) or np.any(wX < lo * (1 - delta)):
                        i = int(np.argmax(np.maximum(wX / hi, lo / wX)))
                        out.append((case, f"higher-order solver with rel_epsilon={REL_EPS}: eigenvalue {i} of X is {wX[i]:.6e}, outside [{lo[i]:.6e}, {hi[i]:.6e}] = the inverse roots for a ridge between rel_epsilon*lambda_max and rel_epsilon*n*lambda_max (delta {delta:.1e})"))
                    else:
                        comm = np.linalg.norm(An @ Xr - Xr @ An, 2) / (np.linalg.norm(An, 2) * np.linalg.norm(Xr, 2))
                        if not comm <= C_BOUND * n * u * kap + 8e-8 * n:
                            out.append((case, f"higher-order solver with rel_epsilon={REL_EPS}: result does not commute with the input ({comm:.2e})"))
                        # "when both are specified, max(rel_epsilon * lambda_max, abs_epsilon) * I is added": the result with both
                        # equals the result with only the larger of the two ridges (whatever upper bound lambda_max is)
                        hocfg = lambda rel: CoupledHigherOrderConfig(order=3, rel_epsilon=rel, tolerance=1e-8)
                        X_rel = mf.matrix_inverse_root(A, root=r, root_inv_config=hocfg(REL_EPS), epsilon=1e-9 * REL_EPS * lmax).double().numpy()
                        w_rel = np.sort(np.linalg.eigvalsh((X_rel + X_rel.T) / 2))[::-1]
                        try:
                            X_abs = mf.matrix_inverse_root(A, root=r, root_inv_config=hocfg(0.0), epsilon=eps).double().numpy()
                            w_abs = np.sort(np.linalg.eigvalsh((X_abs + X_abs.T) / 2))[::-1]
                        except ArithmeticError:
                            w_abs = None
                        stats["calls"] = stats.get("calls", 0) + 2
                        if w_abs is not None and np.all(np.isfinite(w_abs)) and np.all(np.isfinite(w_rel)):
                            rel_larger = w_rel[0] <= w_abs[0]  # larger ridge <=> smaller largest eigenvalue of X
                            want = w_rel if rel_larger else w_abs
                            kap2 = (lmax + min(e_lo, max(eps, 1e-300))) / (float(la.min()) + min(e_lo, max(eps, 1e-300))) if la.min() + min(e_lo, eps) > 0 else float("inf")
                            d2 = 2 * (C_BOUND * n * u * kap2 + 8 * 1e-8 * max(1.0, n / r.numerator)) + delta
                            dev = float(np.max(np.abs(wX - want) / want))
                            stats["ho_rel_max_checked"] = stats.get("ho_rel_max_checked", 0) + 1
                            if np.isfinite(d2) and d2 < 0.05 and not dev <= d2:
                                out.append((case, f"higher-order solver with rel_epsilon={REL_EPS} and epsilon={eps:.3g}: eigenvalues of the result deviate by {dev:.2e} from those obtained with only the larger of the two ridges ({'relative' if rel_larger else 'absolute'}); documented: max(rel_epsilon*lambda_max, abs_epsilon)"))
                except ArithmeticError:
                    stats["ho_raised"] = stats.get("ho_raised", 0) + 1
                except Exception as ex:
                    out.append((case, f"raised {type(ex).__name__}: {str(ex)[:100]}"))
        # fast paths
        if c["basis"] == "identity" and n > 1:
            try:
                Xd = mf.matrix_inverse_root(A, root=r, epsilon=eps, is_diagonal=True).double().numpy()
                Xg = mf.matrix_inverse_root(A, root=r, epsilon=eps, is_diagonal=False).double().numpy()
                rel = float(np.linalg.norm(Xd - Xg) / max(np.linalg.norm(Xg), 1e-300))
                stats["diag_fast_path"] = stats.get("diag_fast_path", 0) + 1
                if not rel <= C_BOUND * n * u * kappa + expo_term:
                    out.append((dict(c, root=[r.numerator, r.denominator], solver="diag"), f"diagonal fast path differs from the general path by {rel:.2e}"))
            except Exception as e:
                out.append((dict(c, root=[r.numerator, r.denominator], solver="diag"), f"diagonal fast path raised {type(e).__name__}"))
    return out


def oracle_crosscheck():
    """closed-form float64 oracle vs 50-digit mpmath eigen-decomposition of the float64 input (n <= 6)."""
    import mpmath as mp

    mp.mp.dps = 50
    worst, n_checked = 0.0, 0
    for n, sp, b, r in itertools.product([2, 3, 6], ["geometric", "rankdef", "clustered"], ["givens", "dct"], [Fraction(2), Fraction(4, 3)]):
        Q = mx.basis(b, n)
        lam = mx.spectrum(sp, n, 1e6)
        A = mx.assemble(Q, lam)
        eps = 1e-6
        Xc = mx.spectral_fn(Q, lam + eps, lambda x: x ** (-1.0 / float(r)))
        E, V = mp.eigsy(mp.matrix(A.tolist()))
        Xm = np.zeros((n, n))
        for i in range(n):
            for j in range(n):
                Xm[i, j] = float(sum(V[i, k] * (E[k] + mp.mpf(eps)) ** (-1 / mp.mpf(float(r))) * V[j, k] for k in range(n)))
        kappa = (lam.max() + eps) / (lam.min() + eps)
        rel = np.linalg.norm(Xc - Xm) / np.linalg.norm(Xm)
        worst = max(worst, rel / (n * 2.0 ** -53 * kappa))
        n_checked += 1
    return worst, n_checked


def check_diag_flag(torch):
    """check_diagonal decides the fast path in the optimizer: the path it selects must give the general path's value.  Inputs:
    exactly diagonal matrices (sorted / unsorted / with zeros), and sparse but non-diagonal PSD matrices whose number of
    non-zero entries does not exceed n (a dense k x k block, k*k <= n), plus tiny off-diagonal entries."""
    import matrix_functions as mf

    out, ncase = [], 0
    for dtype in ("f32", "f64"):
        dt = common.dtype_of(dtype)
        u = common.UNIT[dtype]
        for n in (2, 4, 5, 9, 16):
            mats = {"diag": np.diag(np.linspace(0.25, 2.0, n)), "diag_unsorted": np.diag(np.linspace(2.0, 0.25, n)), "diag_zero": np.diag([0.0] + [1.0] * (n - 1))}
            for k in (2, 3):
                if k * k <= n:
                    B = np.zeros((n, n))
                    blk = np.full((k, k), 0.5) + np.eye(k)
                    B[n - k :, n - k :] = blk
                    mats[f"block{k}"] = B
            T = np.diag(np.linspace(0.5, 1.0, n))
            T[0, n - 1] = T[n - 1, 0] = 1e-30
            mats["tiny_offdiag"] = T
            for name, M in mats.items():
                A = torch.tensor(M, dtype=dt)
                truly = bool(np.all(M - np.diag(np.diag(M)) == 0))
                for r in (Fraction(2), Fraction(4), Fraction(3, 2)):
                    for eps in (1e-1, 1e-3):
                        ncase += 1
                        case = {"diag_flag": True, "n": n, "dtype": dtype, "matrix": name, "root": [r.numerator, r.denominator], "eps": eps}
                        try:
                            flag = bool(mf.check_diagonal(A))
                            Xf = mf.matrix_inverse_root(A, root=r, epsilon=eps, is_diagonal=flag).double().numpy()
                            Xg = mf.matrix_inverse_root(A, root=r, epsilon=eps, is_diagonal=False).double().numpy()
                        except Exception as e:
                            out.append((case, f"raised {type(e).__name__}: {str(e)[:100]}"))
                            continue
                        if flag != truly:
                            out.append((case, f"check_diagonal returned {flag} for a matrix that is {'diagonal' if truly else 'not diagonal'} ({name}, n={n})"))
                        w = np.linalg.eigvalsh(M) + eps
                        kappa = float(w.max() / w.min())
                        rel = float(np.linalg.norm(Xf - Xg) / max(np.linalg.norm(Xg), 1e-300))
                        if not rel <= C_BOUND * n * u * kappa + U32 * float(np.max(np.abs(np.log(w)))):
                            out.append((case, f"the path selected by check_diagonal differs from the general path by {rel:.2e} ({name}, n={n})"))
    return out, ncase


def run_unit(unit):
    import torch

    res = {"evals": 0, "transitions": 0, "states": set(), "outcomes": set(), "nontrivial_count": 0, "violations": [], "samples": [], "stats": {}}
    if unit.get("diag_flag"):
        res = {"evals": 0, "transitions": 0, "states": set(), "outcomes": set(), "nontrivial_count": 0, "violations": [], "samples": [], "stats": {}}
        bad, ncase = check_diag_flag(torch)
        res["evals"] = res["transitions"] = ncase
        res["stats"]["diag_flag_cases"] = ncase
        res["states"] = [common.h64("diag_flag")]
        res["outcomes"] = [common.h64(len(bad))]
        for case, m in bad[:10]:
            res["violations"].append({"case": case, "msg": m, "kind": "diagflag"})
        return res
    if unit.get("oracle_check"):
        worst, n = oracle_crosscheck()
        res["evals"] += n
        res["transitions"] += n
        res["states"].add(common.h64("oracle"))
        res["stats"]["max_oracle_vs_mpmath_over_nukappa"] = worst
        res["stats"]["oracle_crosschecks"] = n
        if worst > 8:
            res["violations"].append({"case": {"oracle_check": True}, "msg": f"HARNESS: closed-form oracle deviates from the 50-digit oracle by {worst:.1f} n u kappa", "kind": "oracle"})
        res["states"] = list(res["states"])
        res["outcomes"] = []
        return res
    stats = {}
    for c in unit["cases"]:
        bad = check_input(torch, c, stats)
        res["evals"] += 1
        res["states"].add(common.h64(json.dumps(c, sort_keys=True)))
        if c["cond"] > 10 or c["sp"] == "rankdef":
            res["nontrivial_count"] += 1
        for case, m in bad[:3]:
            res["violations"].append({"case": case, "msg": f"{m} [{json.dumps(case)}]", "kind": case["solver"] + m[:20]})
    res["transitions"] = stats.pop("calls", 0)
    for k, v in stats.items():
        res["stats"][k if k.startswith("max_") else k] = v
    res["samples"].append(dict(unit["cases"][0], roots=[str(r) for r in ROOTS], solvers=SOLVERS))
    res["violations"] = res["violations"][:25]
    res["states"] = list(res["states"])
    res["outcomes"] = [common.h64(k, round(v, 1)) for k, v in res["stats"].items() if k.startswith("max_ratio")]
    return res


def replay(case):
    import torch

    if case.get("diag_flag"):
        bad, _ = check_diag_flag(torch)
        return [m for c, m in bad if c == case]
    if case.get("oracle_check"):
        w, _ = oracle_crosscheck()
        return [f"oracle deviates {w}"] if w > 8 else []
    c = {k: v for k, v in case.items() if k not in ("root", "solver")}
    bad = check_input(torch, c, {})
    return [m for cs, m in bad if cs.get("root") == case["root"] and cs.get("solver") == case["solver"]]
