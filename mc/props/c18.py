"""C18 - a PT2-compiled step computes the same update as the eager step.

SEQ engine, differential: configurations covering every branch of the group step x {Shampoo, SOAP-eigh, SOAP-QR} x
backend {eager, aot_eager} x shape mode {static, dynamic, auto}; histories that cross warm-up -> first refresh -> hold ->
mask changes (every ordered pair of masks) -> all-absent -> refresh.  After every step parameters and every state
tensor of the compiled optimizer are compared with the uncompiled twin (bitwise for backend eager, few-ulp for
aot_eager).  Non-vacuity: dynamo compiled-frame counters per configuration.
"""
from __future__ import annotations

import itertools
import json

from .. import common, seq

ID = "C18"
TECHNIQUE = "explicit exploration of mask histories covering all mask transitions and schedule phases x branch-covering configurations on the torch.compile'd optimizer, differential against the uncompiled optimizer after every step"
RULE = (
    "all <=2 deviations (<=1 quick) from baselines over weight-decay mode, beta1/beta3, bias correction, momentum/nesterov/dampening, grafting type x {Shampoo, SOAP-eigh, SOAP-QR} x "
    "backend {eager, aot_eager} x shape mode {static, dynamic, auto}; two histories per configuration covering every ordered pair of masks {all, first-only, second-only, none} and all schedule phases. "
    "state = visible digest after each step; non-trivial = configuration whose compiled-frame counter > 0"
)
ASSUMPTIONS = ["inductor backend not claimed (needs a compiler toolchain); the statement restricts itself to numerics-preserving backends", "torch._dynamo.config.cache_size_limit raised to 64 so that recompilations do not silently fall back to eager"]
TRUSTED = ["torch._dynamo counters", "bitwise tensor comparison"]
EXHAUSTIVE = True

AX = {
    "wdm": [(0.0, True), (0.5, False), (0.5, True)],
    "b13": [(0.0, -1.0), (0.5, -1.0), (0.5, 0.25)],
    "bc": [True, False],
    "mom": [(0.0, False, 0.0), (0.5, False, 0.5), (0.5, True, 0.25)],
    "graft": [None, ["sgd"], ["adagrad", 1e-1], ["rmsprop", 0.5, 1e-1], ["adam", 0.5, 1e-1]],
}
BASE = [
    {"wdm": (0.0, True), "b13": (0.0, -1.0), "bc": True, "mom": (0.0, False, 0.0), "graft": None},
    {"wdm": (0.5, True), "b13": (0.5, 0.25), "bc": True, "mom": (0.5, True, 0.25), "graft": ["adam", 0.5, 1e-1]},
    {"wdm": (0.5, False), "b13": (0.5, -1.0), "bc": False, "mom": (0.5, False, 0.5), "graft": ["sgd"]},
]
PCS = [["shampoo", {}], ["soap", {}], ["soap", {"method": "qr", "iters": 2}]]

M_ALL, M_FIRST, M_SECOND, M_NONE = [1, 1, 1], [1, 0, 0], [0, 1, 1], [0, 0, 0]
H1 = [M_ALL, M_ALL, M_ALL, M_FIRST, M_FIRST, M_SECOND, M_NONE, M_ALL, M_NONE, M_NONE, M_FIRST, M_ALL]
H2 = [M_FIRST, M_SECOND, M_SECOND, M_ALL, M_SECOND, M_FIRST, M_NONE, M_SECOND, M_NONE, M_FIRST, M_ALL, M_FIRST]
# a parameter without gradient exactly at the first refresh (start = 2), present again before the next one
H3 = [M_ALL, M_SECOND, M_ALL, M_FIRST, M_ALL, M_NONE, M_FIRST, M_SECOND, M_ALL, M_ALL]
HISTS = (H1, H2, H3)


def bounds(tier):
    return {"max_deviations": 1 if tier == "quick" else 2, "histories_per_config": 3, "history_length": "10-12"}


def configs(tier, seed):
    maxdev = 1 if tier == "quick" else 2
    seen, out = set(), []
    for base in BASE:
        for nd in range(0, maxdev + 1):
            for ks in itertools.combinations(list(AX), nd):
                for vals in itertools.product(*[[v for v in AX[k] if v != base[k]] for k in ks]):
                    d = dict(base)
                    d.update(dict(zip(ks, vals)))
                    key = json.dumps(d, sort_keys=True)
                    if key in seen:
                        continue
                    seen.add(key)
                    out.append(d)
    return out


def to_cfg(d, pc, seed):
    return seq.cfg_with(wd=d["wdm"][0], decoupled=d["wdm"][1], betas=[d["b13"][0], 0.5], beta3=d["b13"][1], bias_corr=d["bc"], momentum=d["mom"][0], nesterov=d["mom"][1], dampening=d["mom"][2],
                        graft=d["graft"], precond=pc, freq=2, start=2, lr=0.25, seed=seed)


def work(tier, seed):
    ds = configs(tier, seed)
    ds1 = {json.dumps(d, sort_keys=True) for d in configs("quick", seed)}  # <= 1 deviation
    units = []
    i = 0
    for d in ds:
        one_dev = json.dumps(d, sort_keys=True) in ds1
        for pi, pc in enumerate(PCS):
            for backend in ("eager", "aot_eager"):
                for mode in (False, True, None):
                    i += 1
                    if tier == "quick" and (i + seed) % 15 != 0:
                        continue
                    # thorough: the complete backend x shape-mode product for all <= 1-deviation configurations; the
                    # 2-deviation configurations run Shampoo/eager/static and SOAP-QR/aot_eager/auto (about 12 min on 16 cores)
                    if tier == "thorough" and not one_dev and (pi, backend, mode) not in ((0, "eager", False), (2, "aot_eager", None)):
                        continue
                    units.append({"cfg": to_cfg(d, pc, seed), "backend": backend, "mode": mode})
    # several parameter groups whose boolean options differ (one compiled step per optimizer, flags passed per group)
    flips = [{"nesterov": True}, {"decoupled": False}, {"bias_corr": False}, {"graft": None}, {"momentum": 0.25, "nesterov": True, "wd": 0.25}]
    for bi, base in enumerate(BASE[1:]):
        for fi, fl in enumerate(flips):
            over = {k: (not to_cfg(base, PCS[0], seed)[k] if isinstance(v, bool) else v) for k, v in fl.items()}
            for pi, pc in enumerate(PCS):
                for backend in ("eager", "aot_eager"):
                    if tier == "quick" and (bi + fi + pi + (backend == "eager")) % 4 != 0:
                        continue
                    cfg = to_cfg(base, pc, seed)
                    cfg["groups"] = [{"params": [0, 2], "over": {}}, {"params": [1], "over": over}]
                    units.append({"cfg": cfg, "backend": backend, "mode": False})
    # two groups with identical parameter shapes and identical scalar options except beta2 (Shampoo's and the grafting
    # method's): they can share one compiled graph, which must not bake in the first group's constants
    for bi, base in enumerate(BASE[1:]):
        for pi, pc in enumerate(PCS[:2]):
            for backend in ("eager", "aot_eager"):
                if tier == "quick" and backend != "eager":
                    continue
                cfg = to_cfg(base, pc, seed)
                cfg["shapes"] = [[3, 2], [3, 2]]
                over = {"betas": [cfg["betas"][0], 0.75]}
                if cfg["graft"] and len(cfg["graft"]) == 3:
                    over["graft"] = [cfg["graft"][0], 0.75, cfg["graft"][2]]
                cfg["groups"] = [{"params": [0], "over": {}}, {"params": [1], "over": over}]
                units.append({"cfg": cfg, "backend": backend, "mode": False, "masks2": True})
    # float64 parameters with a learning rate that is not representable in float32, and bfloat16 parameters
    for pi, pc in enumerate(PCS):
        for backend in ("eager", "aot_eager"):
            for pd, lr in (("f64", 0.01), ("bf16", 0.25), ("f64", 0.3)):
                if tier == "quick" and (pi + (backend == "eager") + (pd == "bf16")) % 2:
                    continue
                cfg = to_cfg(BASE[1], pc, seed)
                cfg.update(pdtype=pd, prec_dtype="f64" if pd == "f64" else "f32", lr=lr)
                units.append({"cfg": cfg, "backend": backend, "mode": False})
            # factor matrices in another precision than the parameters (float32 / float64 either way)
            for pd, prec in (("f32", "f64"), ("f64", "f32")):
                if tier == "quick" and (pi + (backend == "eager") + (pd == "f64")) % 2 == 0:
                    continue
                cfg = to_cfg(BASE[1], pc, seed)
                cfg.update(pdtype=pd, prec_dtype=prec, gscale=0.3)
                units.append({"cfg": cfg, "backend": backend, "mode": False})
    # non-dyadic hyper-parameters and gradient scale: with powers of two every product and power is exact in any precision and
    # any evaluation order, which would hide a compiled graph that computes a scalar or an outer product in another precision
    for pi, pc in enumerate(PCS):
        for backend in ("eager", "aot_eager"):
            for pd, prec in (("f32", "f32"), ("f32", "f64")):
                if tier == "quick" and (backend != "eager" or (pi + (prec == "f64")) % 2):
                    continue
                cfg = to_cfg(BASE[1], pc, seed)
                cfg.update(pdtype=pd, prec_dtype=prec, betas=[0.9, 0.95], beta3=0.7, graft=["adam", 0.95, 1e-3], lr=0.01, wd=0.01, momentum=0.9, dampening=0.1, gscale=0.3)
                units.append({"cfg": cfg, "backend": backend, "mode": False})
    # ignored dimensions (the factor updates / preconditioning skip a dimension lower than a preconditioned one)
    for pc in (["shampoo", {"ignored": [0]}], ["soap", {"ignored": [0]}], ["shampoo", {"ignored": [1]}]):
        for backend in ("eager", "aot_eager"):
            for bi in (0, 1):
                if tier == "quick" and (bi + (backend == "eager")) % 2:
                    continue
                units.append({"cfg": to_cfg(BASE[bi], pc, seed), "backend": backend, "mode": False})
    # a group step that raises (failed root computations beyond the tolerance): the state left behind must agree as well
    for backend in ("eager", "aot_eager"):
        cfg = to_cfg(BASE[2], ["shampoo", {"solver": "higher", "iters": 1, "stol": 0.0, "tol": 0}], seed)
        units.append({"cfg": cfg, "backend": backend, "mode": False, "expect_raise": True})
    return units


def tree_tensors(o, path=()):
    import torch

    if isinstance(o, torch.Tensor):
        yield path, (o.to_local() if hasattr(o, "to_local") else o)
    elif isinstance(o, dict):
        for k in o:
            yield from tree_tensors(o[k], path + (str(k),))
    elif isinstance(o, (list, tuple)):
        for i, v in enumerate(o):
            yield from tree_tensors(v, path + (i,))
    elif hasattr(o, "__dict__"):
        yield from tree_tensors(vars(o), path)


def check(cfg, backend, mode, hist, resume_at=None, flip_at=None):
    """resume_at = k: before step k both optimizers are replaced by freshly constructed ones (compiled resp. eager) that
    load the checkpoint saved from the eager run - a resumed job must keep computing the same updates."""
    import torch
    import torch._dynamo
    from distributed_shampoo.shampoo_types import ShampooPT2CompileConfig

    torch._dynamo.reset()
    torch._dynamo.config.cache_size_limit = 64
    torch._dynamo.utils.counters.clear()
    params, opt = seq.build(cfg, compile_cfg=ShampooPT2CompileConfig(pytorch_compile_backend=backend, enable_shampoo_pt2_dynamic_shape=mode))
    tparams = [torch.nn.Parameter(p.detach().clone()) for p in params]
    _, twin = seq.build(cfg, params=tparams)
    u = common.UNIT[cfg["pdtype"]]
    msgs, digests = [], []
    for t, mask in enumerate(hist):
        if flip_at is not None and t == flip_at:
            # boolean options edited in param_groups between two steps (both optimizers): the next step uses the new values
            for o in (opt, twin):
                for g in o.param_groups:
                    g["use_nesterov"] = not g["use_nesterov"]
                    g["use_decoupled_weight_decay"] = not g["use_decoupled_weight_decay"]
        if resume_at is not None and t == resume_at:
            from . import c09

            blob = c09.save(twin, tparams)
            pv = [p.detach().clone() for p in tparams]
            params = [torch.nn.Parameter(v.clone()) for v in pv]
            _, opt = seq.build(cfg, params=params, compile_cfg=ShampooPT2CompileConfig(pytorch_compile_backend=backend, enable_shampoo_pt2_dynamic_shape=mode))
            opt.load_distributed_state_dict(c09.load_bytes(blob), key_to_param=iter(c09.names(params)))
            tparams = [torch.nn.Parameter(v.clone()) for v in pv]
            _, twin = seq.build(cfg, params=tparams)
            twin.load_distributed_state_dict(c09.load_bytes(blob), key_to_param=iter(c09.names(tparams)))
        seq.set_grads(params, cfg, t, mask)
        for a, b in zip(params, tparams):
            b.grad = None if a.grad is None else a.grad.clone()
        exc_c = exc_e = None
        try:
            opt.step()
        except Exception as e:
            exc_c = e
        try:
            twin.step()
        except Exception as e:
            exc_e = e
        if (exc_c is None) != (exc_e is None) or (exc_c is not None and type(exc_c) is not type(exc_e)):
            return [f"step {t} mask {mask}: compiled step raised {type(exc_c).__name__ if exc_c else None}, eager step raised {type(exc_e).__name__ if exc_e else None}: {str(exc_c or exc_e)[:160]}"], digests, 0
        for i, (a, b) in enumerate(zip(params, tparams)):
            pairs = [((f"param{i}",), a.detach(), b.detach())]
            if (a.grad is None) != (b.grad is None):
                msgs.append(f"step {t} mask {mask}: .grad of parameter {i} is {'None' if a.grad is None else 'set'} after the compiled step but {'None' if b.grad is None else 'set'} after the eager step")
            elif a.grad is not None:
                pairs.append(((f"grad{i}",), a.grad.detach(), b.grad.detach()))  # what the step leaves in .grad (e.g. the L2 term) must agree too
            sa, sb = dict(tree_tensors(opt.state[a])), dict(tree_tensors(twin.state[b]))
            if sa.keys() != sb.keys():
                msgs.append(f"step {t} mask {mask}: state structure of parameter {i} differs between compiled and eager")
                continue
            pairs += [(k, sa[k], sb[k]) for k in sa]
            for k, x, y in pairs:
                if backend == "eager":
                    ok = torch.equal(x, y)
                else:
                    scale = max(y.double().abs().max().item() if y.numel() else 0.0, 1e-30)
                    ok = x.shape == y.shape and ((x.double() - y.double()).abs().max().item() if y.numel() else 0.0) <= 16 * u * scale
                if not ok:
                    d = (x.double() - y.double()).abs().max().item() if x.shape == y.shape and x.numel() else float("nan")
                    msgs.append(f"step {t} mask {mask}: {'/'.join(map(str, k))} of parameter {i} differs between compiled ({backend}, dynamic={mode}) and eager optimizer (max diff {d:.3e})")
                    break
        digests.append(seq.visible_digest(opt, params))
        if msgs or exc_c is not None:
            break
    c = torch._dynamo.utils.counters
    frames = int(c["frames"]["ok"]) if "frames" in c else 0
    graphs = int(c["stats"]["unique_graphs"]) if "stats" in c else 0
    if not msgs and (frames == 0 or graphs == 0):
        msgs.append(f"vacuous: torch.compile produced no compiled frame (frames ok={frames}, graphs={graphs})")
    return msgs[:3], digests, graphs


def run_unit(unit):
    res = {"evals": 0, "transitions": 0, "states": set(), "outcomes": set(), "nontrivial_count": 0, "violations": [], "samples": [], "stats": {"compiled_graphs": 0, "min_graphs_per_run": 10 ** 6}}
    runs = [(h, None, None) for h in HISTS]
    if unit.get("masks2"):  # two parameters: project the three-parameter masks
        runs = [([[m[0], m[1]] for m in h], None, None) for h in HISTS]
    elif not unit.get("expect_raise"):
        runs.append((H3, 4, None))  # checkpoint after 4 steps (past the first refresh), resume into fresh optimizers
        if unit["cfg"]["momentum"] != 0.0 and unit["cfg"]["wd"] != 0.0 and not unit["cfg"].get("groups"):
            runs.append((H1[:7], None, 3))  # use_nesterov / use_decoupled_weight_decay flipped in param_groups before step 3
    for hi, (hist, resume_at, flip_at) in enumerate(runs):
        msgs, digests, graphs = check(unit["cfg"], unit["backend"], unit["mode"], hist, resume_at, flip_at)
        res["stats"]["flag_flip_runs"] = res["stats"].get("flag_flip_runs", 0) + int(flip_at is not None)
        res["stats"]["resumed_runs"] = res["stats"].get("resumed_runs", 0) + int(resume_at is not None)
        res["evals"] += 1
        res["transitions"] += len(digests)
        res["states"].update(digests)
        if digests:
            res["outcomes"].add(digests[-1])
        res["stats"]["compiled_graphs"] += graphs
        res["stats"]["min_graphs_per_run"] = min(res["stats"]["min_graphs_per_run"], graphs)
        if graphs > 0:
            res["nontrivial_count"] += 1
        if msgs:
            res["violations"].append({"case": {"cfg": unit["cfg"], "backend": unit["backend"], "mode": unit["mode"], "hist": hist, "resume_at": resume_at, "flip_at": flip_at}, "msg": f"{msgs[0]}{' (both optimizers resumed from a checkpoint before step %d)' % resume_at if resume_at is not None else ''}{' (use_nesterov and use_decoupled_weight_decay flipped in param_groups before step %d)' % flip_at if flip_at is not None else ''} [cfg {brief(unit['cfg'])}]", "kind": msgs[0].split(":")[-1][:30]})
    res["samples"].append({"cfg": brief(unit["cfg"]), "backend": unit["backend"], "dynamic": unit["mode"], "history": H1})
    res["states"] = list(res["states"])
    res["outcomes"] = list(res["outcomes"])
    return res


def brief(cfg):
    return json.dumps({k: v for k, v in cfg.items() if seq.DEFAULT.get(k, "__") != v}, sort_keys=True)


def replay(case):
    return check(case["cfg"], case["backend"], case["mode"], case["hist"], case.get("resume_at"), case.get("flip_at"))[0]
