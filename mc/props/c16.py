"""C16 - state-dict flatten/unflatten and OptimizerModule state round-trip losslessly.

ENUM engine.  Part 'flat': all ordered nested-dict trees up to E edges with keys assigned in all sibling-distinct ways
from an adversarial alphabet (separators, quotes, brackets, '', '0' vs 0, negative ints), leaves in {tensor, tuple,
list}; sub-dictionaries without leaves included.  Part 'mod': all OptimizerModule object graphs from the grammar
value := tensor | scalar | dict | tuple | list | module (containers of 0..2 values) up to a node bound; state_dict must
reach every tensor, load_state_dict into a structurally equal module must reproduce every value in place.
"""
from __future__ import annotations

import itertools
import json

from .. import common

ID = "C16"
TECHNIQUE = "bounded-exhaustive enumeration of nested dict structures over an adversarial key alphabet (flatten/unflatten) and of OptimizerModule object graphs (state_dict/load_state_dict), exact structural oracles"
RULE = (
    "flat: all ordered trees with <= E edges (4 quick/5 thorough; depth up to E, chains to depth 6 separately) x all sibling-distinct key assignments over 15 keys (E<=3) / 9 keys (E=4) / 5 keys (E=5); "
    "mod: all module graphs with <= N nodes (5 quick / 6 thorough), depth <= 3. state = the structure; non-trivial = structure with >= 2 leaves or a leafless sub-dictionary"
)
ASSUMPTIONS = ["keys are str or int (the property's domain)", "tuple/list identity is not required to be preserved by load_state_dict, tensor identity is"]
TRUSTED = ["python dict equality, `is`"]
EXHAUSTIVE = True

KEYS = ["a", "", "a.b", "a/b", '"', "\\", "[", "]", ",", " ", '["a"]', "0", 0, 1, -1]
KEYS9 = ["a", "", '"', "\\", '["a"]', "0", 0, -1, "a.b"]
KEYS5 = ["a", "0", 0, '","', "]"]


def bounds(tier):
    return {"flat_edges": 4 if tier == "quick" else 5, "module_nodes": 5 if tier == "quick" else 6}


# ----------------------------------------------------------------------------- tree shapes


def shapes(edges):
    """all ordered rooted trees (root is a dict) with exactly `edges` edges; node = list of children; leaf = None or [] (leafless dict)."""
    # a tree is a tuple of children; each child is 'L' (leaf) or a tuple (sub dict, possibly empty)
    memo = {}

    def forests(e):  # sequences of children using exactly e edges in total
        if e in memo:
            return memo[e]
        out = [()] if e == 0 else []
        if e > 0:
            # first child uses 1 edge + k edges below it
            for k in range(0, e):
                for rest in forests(e - 1 - k):
                    if k == 0:
                        out.append(("L",) + rest)
                    for sub in forests(k):
                        out.append((sub,) + rest)
        memo[e] = out
        return out

    return forests(edges)


def assign(tree, keys):
    """yield all dicts realising `tree` with sibling-distinct keys from `keys` (leaves are placeholders numbered in order)."""
    def rec(node):
        n = len(node)
        if n == 0:
            yield {}
            return
        child_opts = []
        for ch in node:
            child_opts.append(None if ch == "L" else list(rec(ch)))
        for ks in itertools.permutations(keys, n):
            pools = [[("L",)] if o is None else o for o in child_opts]
            for combo in itertools.product(*pools):
                yield {k: v for k, v in zip(ks, combo)}

    yield from rec(tree)


def materialise(d, torch, counter):
    out = {}
    for k, v in d.items():
        if v == ("L",):
            i = counter[0]
            counter[0] += 1
            kind = i % 4
            out[k] = torch.tensor([float(i)]) if kind == 0 else ((i, "x") if kind == 1 else ([i] if kind == 2 else torch.zeros(0, 3)))  # incl. a tensor with zero elements
        else:
            out[k] = materialise(v, torch, counter)
    return out


def prune(d):
    out = {}
    for k, v in d.items():
        if isinstance(v, dict):
            p = prune(v)
            if p:
                out[k] = p
        else:
            out[k] = v
    return out


def n_leaves(d):
    return sum(n_leaves(v) if isinstance(v, dict) else 1 for v in d.values())


def same_tree(a, b):
    if isinstance(a, dict) != isinstance(b, dict):
        return False
    if not isinstance(a, dict):
        return a is b
    if len(a) != len(b):
        return False
    kb = {(type(k), k): v for k, v in b.items()}
    for k, v in a.items():
        if (type(k), k) not in kb or not same_tree(v, kb[(type(k), k)]):
            return False
    return True


def check_flat(d, flatten, unflatten):
    msgs = []
    f = flatten(d)
    nl = n_leaves(d)
    if len(f) != nl:
        msgs.append(f"flatten produced {len(f)} flat keys for {nl} leaves (distinct key paths collide or are lost)")
    if not all(isinstance(k, str) for k in f):
        msgs.append("flat keys are not all strings")
    u = unflatten(f)
    want = prune(d)
    if not same_tree(want, u):
        msgs.append(f"unflatten(flatten(d)) != d (after dropping leafless sub-dictionaries): got {u!r}")
    return msgs


# ----------------------------------------------------------------------------- module graphs


def values(budget, depth):
    """all value specs using exactly `budget` nodes."""
    if budget <= 0:
        return
    if budget == 1:
        yield ("T",)
        yield ("G",)  # tensor that requires grad
        yield ("P",)  # an nn.Parameter held by a module (a Tensor subclass: its detached / saved form is a plain Tensor)
        yield ("N",)  # non-contiguous tensor (a transposed view of a buffer)
        yield ("S",)
        yield ("E",)  # tensor-free sub-module that still has container attributes (tuple of strings, empty dict, int)
        yield ("Q",)  # the library's own QuantizedTensor module (integer values + min / max tensors)
    for kind in ("D", "U", "L", "M"):
        if kind == "M" and depth >= 3:
            continue
        if depth >= 3:
            continue
        for n in range(0, 3):
            for parts in compositions(budget - 1, n):
                for combo in itertools.product(*[list(values(p, depth + 1)) for p in parts]):
                    yield (kind,) + combo


def compositions(total, n):
    if n == 0:
        if total == 0:
            yield ()
        return
    for first in range(1, total - n + 2):
        for rest in compositions(total - first, n - 1):
            yield (first,) + rest


def module_specs(nodes):
    for total in range(1, nodes + 1):
        for n in range(1, 4):
            for parts in compositions(total, n):
                for combo in itertools.product(*[list(values(p, 1)) for p in parts]):
                    yield ("M",) + combo


def build_value(spec, torch, OptimizerModule, ctr, fill):
    k = spec[0]
    if k == "P":
        ctr[0] += 1
        return torch.nn.Parameter(torch.full((2,), float(ctr[0]) if fill else 0.0))
    if k in ("T", "G", "N"):
        ctr[0] += 1
        if k == "N":
            base = torch.arange(6, dtype=torch.float32).reshape(2, 3) + (100.0 * ctr[0] if fill else 0.0)
            return (base if fill else torch.zeros(2, 3)).t()  # shape (3, 2), strides (1, 3)
        t = torch.full((2,), float(ctr[0]) if fill else 0.0)
        if k == "G":
            t.requires_grad_(True)
        return t
    if k == "S":
        ctr[0] += 1
        return ctr[0] if fill else -1
    if k == "Q":
        from distributed_shampoo.utils.shampoo_block_info import BlockInfo
        from distributed_shampoo.utils.shampoo_quantization import QuantizedTensor

        ctr[0] += 1
        bi = BlockInfo(param=torch.zeros(1), composable_block_ids=(0, "block_0"))
        if fill:
            # the source is built from explicit metadata tensors, the target by the default allocation
            return QuantizedTensor(torch.full((2,), ctr[0] % 100, dtype=torch.int8), bi, min_value=torch.full((1,), float(ctr[0])), max_value=torch.full((1,), float(ctr[0]) + 0.5))
        return QuantizedTensor(torch.zeros(2, dtype=torch.int8), bi)
    if k == "E":
        e = OptimizerModule()
        e.names, e.table, e.count = ("a", "b"), {}, 3
        return e
    kids = [build_value(s, torch, OptimizerModule, ctr, fill) for s in spec[1:]]
    if k == "D":
        return {f"k{i}": v for i, v in enumerate(kids)}
    if k == "U":
        return tuple(kids)
    if k == "L":
        return list(kids)
    m = OptimizerModule()
    for i, v in enumerate(kids):
        setattr(m, f"a{i}", v)
    return m


def walk_tensors(o, OptimizerModule, torch, path=()):
    if isinstance(o, torch.Tensor):
        yield path, o
    elif isinstance(o, OptimizerModule):
        for k, v in vars(o).items():
            yield from walk_tensors(v, OptimizerModule, torch, path + (k,))
    elif isinstance(o, dict):
        for k, v in o.items():
            yield from walk_tensors(v, OptimizerModule, torch, path + (k,))
    elif isinstance(o, (list, tuple)):
        for i, v in enumerate(o):
            yield from walk_tensors(v, OptimizerModule, torch, path + (i,))


def check_shared_modules(torch, OptimizerModule):
    """a sub-module reachable through several paths (two attributes, a list element, a dict value) - not a cycle: the state
    dict must contain every reachable tensor under every path, and loading into a structurally equal module whose
    sub-modules are separate objects must set all of them."""
    out = []

    def leaf(v):
        m = OptimizerModule()
        m.w = torch.full((2,), v)
        m.pair = (torch.full((1,), v + 0.5), torch.full((1,), v + 0.25))
        return m

    for variant in range(4):
        src = OptimizerModule()
        shared = leaf(3.0)
        if variant == 0:
            src.a, src.b = shared, shared
        elif variant == 1:
            src.a, src.lst = shared, [shared, torch.full((2,), 9.0)]
        elif variant == 2:
            src.d = {"x": shared, "y": shared}
        else:
            mid = OptimizerModule()
            mid.inner = shared
            src.a, src.mid = shared, mid
        dst = OptimizerModule()
        if variant == 0:
            dst.a, dst.b = leaf(0.0), leaf(0.0)
        elif variant == 1:
            dst.a, dst.lst = leaf(0.0), [leaf(0.0), torch.zeros(2)]
        elif variant == 2:
            dst.d = {"x": leaf(0.0), "y": leaf(0.0)}
        else:
            mid = OptimizerModule()
            mid.inner = leaf(0.0)
            dst.a, dst.mid = leaf(0.0), mid
        sd = src.state_dict()
        n_paths = len(dict(walk_tensors(src, OptimizerModule, torch)))
        n_sd = len(dict(walk_tensors(sd, OptimizerModule, torch)))
        if n_sd != n_paths:
            out.append((variant, f"shared sub-module (variant {variant}): state_dict() holds {n_sd} tensors, {n_paths} are reachable through the module's attributes"))
            continue
        dst.load_state_dict(sd)
        want = dict(walk_tensors(src, OptimizerModule, torch))
        got = dict(walk_tensors(dst, OptimizerModule, torch))
        bad = [p for p in want if p not in got or not torch.equal(got[p], want[p])]
        if bad:
            out.append((variant, f"shared sub-module (variant {variant}): tensors at {bad[:3]} were not loaded"))
    return out


def check_module(spec, torch, OptimizerModule, via_checkpoint):
    from distributed_shampoo.utils.shampoo_checkpoint_utils import extract_state_dict_content, flatten, unflatten, update_param_state_dict_object

    msgs = []
    src = build_value(spec, torch, OptimizerModule, [0], True)
    dst = build_value(spec, torch, OptimizerModule, [0], False)
    sd = src.state_dict()
    src_t = dict(walk_tensors(src, OptimizerModule, torch))
    sd_t = dict(walk_tensors(sd, OptimizerModule, torch))
    ptrs = lambda d: sorted(t.data_ptr() for t in d.values())
    if ptrs(src_t) != ptrs(sd_t):
        msgs.append(f"state_dict() reaches {len(sd_t)} tensors, the module holds {len(src_t)}")
    # keep_vars=True hands out the module's own tensor objects at every nesting level
    kv_t = dict(walk_tensors(src.state_dict(keep_vars=True), OptimizerModule, torch))
    if kv_t.keys() != src_t.keys() or any(kv_t[p] is not src_t[p] for p in src_t):
        bad = [p for p in src_t if p not in kv_t or kv_t[p] is not src_t[p]]
        msgs.append(f"state_dict(keep_vars=True) does not return the module's own tensor objects at {bad[:2]}")
    before = dict(walk_tensors(dst, OptimizerModule, torch))
    before_rg = {p: t.requires_grad for p, t in before.items()}
    aliases = list(before.values())
    if via_checkpoint:
        if not src_t:
            return msgs
        cur = {"blk": {"mod": dst}}
        saved = flatten(extract_state_dict_content({"blk": {"mod": src}}))
        try:
            update_param_state_dict_object(cur, unflatten(saved))
        except Exception as e:
            msgs.append(f"restore through flatten/unflatten raised {type(e).__name__}: {str(e)[:120]}")
            return msgs
    else:
        dst.load_state_dict(sd)
    after = dict(walk_tensors(dst, OptimizerModule, torch))
    if after.keys() != before.keys():
        msgs.append("load changed the structure of the module")
        return msgs
    for p, t in after.items():
        if t.requires_grad != before_rg[p] or not t.is_leaf:
            msgs.append(f"tensor at {p}: requires_grad/leaf status changed by the load")
        if t is not before[p]:
            msgs.append(f"tensor object at {p} was replaced by load (in-place copy expected)")
        if p not in src_t or not torch.equal(t, src_t[p]):
            msgs.append(f"tensor at {p} does not hold the loaded value")
    for a, (p, _) in zip(aliases, before.items()):
        if not torch.equal(a, src_t[p]):
            msgs.append(f"alias of tensor {p} taken before the load does not see the loaded value")
    return msgs


# ----------------------------------------------------------------------------- units


def work(tier, seed):
    units = []
    E = 4 if tier == "quick" else 5
    for e in range(0, E + 1):
        keys = KEYS if e <= 3 else (KEYS9 if e == 4 else KEYS5)
        sh = shapes(e)
        for ch in common.chunks(list(range(len(sh))), max(1, len(sh) // 12)):
            units.append({"part": "flat", "edges": e, "shape_ids": ch, "nkeys": len(keys)})
    units.append({"part": "chains"})
    units.append({"part": "shared"})
    N = 5 if tier == "quick" else 6
    specs = list(module_specs(N))
    for ch in common.chunks(list(range(len(specs))), max(50, len(specs) // 24)):
        units.append({"part": "mod", "nodes": N, "ids": ch})
    return units


def run_unit(unit):
    import torch
    from distributed_shampoo.utils.shampoo_checkpoint_utils import flatten, unflatten
    from optimizer_modules import OptimizerModule

    res = {"evals": 0, "transitions": 0, "states": set(), "outcomes": set(), "nontrivial_count": 0, "violations": [], "samples": [], "stats": {"flat_structures": 0, "module_graphs": 0, "leafless_cases": 0}}

    def rec(case, msgs, nontriv, key):
        res["evals"] += 1
        res["transitions"] += 1
        res["states"].add(key)
        if nontriv:
            res["nontrivial_count"] += 1
        for m in msgs[:1]:
            res["violations"].append({"case": case, "msg": f"{m} [case {json.dumps(case, default=repr)[:300]}]", "kind": m[:30]})

    if unit["part"] == "flat":
        keys = KEYS if unit["nkeys"] == 15 else (KEYS9 if unit["nkeys"] == 9 else KEYS5)
        sh = shapes(unit["edges"])
        for sid in unit["shape_ids"]:
            for proto in assign(sh[sid], keys):
                d = materialise(proto, torch, [0])
                try:
                    msgs = check_flat(d, flatten, unflatten)
                except Exception as e:
                    msgs = [f"raised {type(e).__name__}: {str(e)[:100]}"]
                leafless = prune(d) != d
                res["stats"]["flat_structures"] += 1
                res["stats"]["leafless_cases"] += int(leafless)
                rec({"part": "flat", "proto": encode(proto)}, msgs, n_leaves(d) >= 2 or leafless, common.h64(repr(encode(proto))))
                if len(res["violations"]) > 20:
                    break
            if len(res["violations"]) > 20:
                break
        if sh:
            res["samples"].append({"edges": unit["edges"], "example": repr(materialise(next(assign(sh[unit["shape_ids"][0]], keys)), torch, [0]))[:200]})
    elif unit["part"] == "shared":
        for variant, m in check_shared_modules(torch, OptimizerModule):
            rec({"part": "shared", "variant": variant}, [m], True, common.h64("shared", variant))
        res["evals"] += 4
        res["transitions"] += 4
        res["stats"]["shared_module_graphs"] = 4
    elif unit["part"] == "chains":
        for depth in range(1, 7):
            for ks in itertools.product(["a", "", "0", 0, '"]'], repeat=depth) if depth <= 4 else itertools.product(["", 0, '"]'], repeat=depth):
                proto = ("L",)
                for k in reversed(ks):
                    proto = {k: proto}
                d = materialise(proto, torch, [0])
                try:
                    cm = check_flat(d, flatten, unflatten)
                except Exception as e:
                    cm = [f"raised {type(e).__name__}: {str(e)[:100]}"]
                rec({"part": "flat", "proto": encode(proto)}, cm, depth >= 3, common.h64("chain", repr(ks)))
                res["stats"]["flat_structures"] += 1
    else:
        specs = list(module_specs(unit["nodes"]))
        for i in unit["ids"]:
            spec = specs[i]
            for via in (False, True):
                try:
                    msgs = check_module(spec, torch, OptimizerModule, via)
                except Exception as e:
                    msgs = [f"raised {type(e).__name__}: {str(e)[:120]}"]
                res["stats"]["module_graphs"] += 1
                rec({"part": "mod", "spec": spec, "via_checkpoint": via}, msgs, repr(spec).count("'T'") + repr(spec).count("'G'") + repr(spec).count("'N'") + repr(spec).count("'P'") + repr(spec).count("'Q'") >= 2, common.h64(repr(spec), via))
            if len(res["violations"]) > 20:
                break
        res["samples"].append({"module_spec": repr(specs[unit["ids"][len(unit["ids"]) // 2]])})
    res["violations"] = res["violations"][:20]
    res["states"] = list(res["states"])
    res["outcomes"] = [common.h64(len(res["violations"]))]
    return res


def encode(proto):
    """JSON-able encoding that preserves key types."""
    if proto == ("L",):
        return "L"
    return [[("i" if isinstance(k, int) else "s"), k, encode(v)] for k, v in proto.items()]


def decode(enc):
    if enc == "L":
        return ("L",)
    return {(int(k) if t == "i" else k): decode(v) for t, k, v in enc}


def to_tuple(x):
    return tuple(to_tuple(y) for y in x) if isinstance(x, (list, tuple)) else x


def replay(case):
    import torch
    from distributed_shampoo.utils.shampoo_checkpoint_utils import flatten, unflatten
    from optimizer_modules import OptimizerModule

    if case["part"] == "shared":
        return [m for v, m in check_shared_modules(torch, OptimizerModule) if v == case["variant"]]
    if case["part"] == "flat":
        d = materialise(decode(case["proto"]), torch, [0])
        try:
            return check_flat(d, flatten, unflatten)
        except Exception as e:
            return [f"raised {type(e).__name__}: {e}"]
    try:
        return check_module(to_tuple(case["spec"]), torch, OptimizerModule, case["via_checkpoint"])
    except Exception as e:
        return [f"raised {type(e).__name__}: {e}"]
