"""C04 - parameters without a gradient are untouched; state is never cross-wired.

SEQ engine: EVERY gradient-presence sequence up to the depth bound over 3 parameters (layouts with
equal-shaped blocks so that a misalignment cannot raise a shape error) x configurations.  Oracles:
bit-identity of absent parameters and their state, group step counter advances iff some parameter of
the group has a gradient, all-absent step leaves the user-visible projection unchanged, present blocks
follow the float64 reference (distinct gradient stream per block => a swapped buffer changes numbers).
"""
from __future__ import annotations

import itertools
import json

from .. import common, seq

ID = "C04"
TECHNIQUE = "explicit exploration of every gradient-presence history up to a depth bound on the real optimizer; bitwise frame oracle for absent parameters + reference-model conformance for present ones"
RULE = (
    "all mask sequences over 3 parameters of depth D (quick 3, thorough 4; 8^D histories) x configurations (Shampoo/SOAP-eigh/SOAP-QR x grafting x "
    "filtering+momentum+decay x freq) x 3 layouts with equal-shaped blocks x {1,2} param groups; state = digest of visible optimizer state after each step; "
    "non-trivial = history in which the mask changes at least once"
)
ASSUMPTIONS = ["data alphabets as in C01", "state of a parameter = every tensor under optimizer.state[param] (the group's step tensor is treated as the group counter)"]
TRUSTED = ["torch.equal", "mc.refs.shampoo.RefOpt"]
EXHAUSTIVE = True

LAYOUTS = [
    dict(shapes=[[3, 2], [3, 2], [5]], max_dim=3, merge=True),
    dict(shapes=[[2, 2], [2, 2], [2, 2]], max_dim=1024, merge=False),
    dict(shapes=[[4, 2], [2, 2], [2]], max_dim=2, merge=False),
]


def bounds(tier):
    return {"depth": 3 if tier == "quick" else 4, "params": 3, "configs": len(configs(tier, 0))}


def base_cfgs():
    out = []
    for pc in (["shampoo", {}], ["soap", {}], ["soap", {"method": "qr", "iters": 2}]):
        for g in (None, ["adam", 0.5, 1e-1]):
            for rich in (False, True):
                kw = dict(precond=pc, graft=g, betas=[0.0, 0.5], lr=0.25)
                if rich:
                    kw.update(betas=[0.5, 0.5], beta3=0.25, momentum=0.5, wd=0.5, decoupled=True)
                out.append(kw)
    return out


def configs(tier, seed):
    out = []
    bases = base_cfgs()
    for li, lay in enumerate(LAYOUTS):
        for bi, kw in enumerate(bases):
            if tier == "quick" and (bi + li + seed) % 3 != 0:
                continue
            for fs in ((1, 2), (2, 2)):
                if tier == "quick" and fs == (2, 2) and bi % 2 == 0:
                    continue
                c = seq.cfg_with(seed=seed, freq=fs[0], start=fs[1], **lay, **kw)
                out.append(c)
    # a present-but-all-zero gradient is a gradient: the parameter is still decayed / given momentum like the reference says
    for lay in LAYOUTS[:2]:
        out.append(seq.cfg_with(seed=seed, freq=1, start=2, grad_kind="zero_second", **lay, **bases[3]))
    # two param groups: counters are per group
    for li, lay in enumerate(LAYOUTS):
        for kw in (bases[1], bases[7]):
            c = seq.cfg_with(seed=seed, freq=1, start=2, groups=[{"params": [0, 2], "over": {}}, {"params": [1], "over": {"lr": 0.125}}], **lay, **kw)
            out.append(c)
    return out


def work(tier, seed):
    depth = 3 if tier == "quick" else 4
    cfgs = configs(tier, seed)
    masks = seq.all_masks(3)
    units = []
    # split the history tree by its first event(s) to get enough work units
    split = 1 if tier == "quick" else 2
    for cfg in cfgs:
        for pre in itertools.product(masks, repeat=split):
            units.append({"cfg": cfg, "prefix": [list(m) for m in pre], "depth": depth})
    return units


def param_state_snapshot(opt, p):
    """clone of every tensor under optimizer.state[p] except the group counter."""
    import torch

    out = {}

    def walk(o, path):
        if isinstance(o, torch.Tensor):
            t = o.to_local() if hasattr(o, "to_local") else o
            out[path] = t.detach().clone()
        elif isinstance(o, dict):
            for k, v in o.items():
                if path == () and k == "step":
                    continue
                walk(v, path + (str(k),))
        elif isinstance(o, (list, tuple)):
            for i, v in enumerate(o):
                walk(v, path + (i,))
        elif hasattr(o, "__dict__"):
            walk(vars(o), path)

    walk(opt.state[p], ())
    return out


def check_history(cfg, hist, compare_from=0, nrg=None):
    """nrg: indices of parameters that get requires_grad=False after the optimizer is built while their .grad is still
    assigned every step (externally computed gradients): presence is decided by .grad, so nothing may change."""
    import torch

    params, opt = seq.build(cfg)
    for i in nrg or ():
        params[i].requires_grad_(False)
    ref = seq.RefOpt(cfg, [seq.to_np(p.data) for p in params])
    any_soap = any(g.soap for g in ref.groups)
    msgs, digests, worst = [], [], 0.0
    t = -1
    for ev in hist:
        if ev and ev[0] == "set":
            seq.apply_set(opt, ref, ev)
            continue
        mask = ev
        t += 1
        seq.set_grads(params, cfg, t, mask)
        before_p = [p.detach().clone() for p in params]
        before_s = [param_state_snapshot(opt, p) for p in params]
        before_steps = [int(opt.state[params[g.pidxs[0]]]["step"].item()) for g in ref.groups]
        before_vis = seq.visible_digest(opt, params)
        try:
            opt.step()
        except Exception as e:
            return [f"step {t} mask {mask}: raised {type(e).__name__}: {str(e)[:150]}"], digests, worst, t
        ref.step(seq.ref_grads(cfg, t, mask), bases=seq.soap_bases(opt, params, ref) if any_soap else None)
        # frame oracle
        for i, p in enumerate(params):
            if mask[i]:
                continue
            if not torch.equal(p.data, before_p[i]):
                msgs.append(f"step {t} mask {mask}: parameter {i} has no gradient but its value changed")
            after = param_state_snapshot(opt, p)
            for k, v in before_s[i].items():
                if k not in after or not torch.equal(after[k], v):
                    msgs.append(f"step {t} mask {mask}: parameter {i} has no gradient but its state {'/'.join(map(str, k))} changed")
                    break
        for gi, g in enumerate(ref.groups):
            got = int(opt.state[params[g.pidxs[0]]]["step"].item())
            want = before_steps[gi] + (1 if any(mask[i] for i in g.pidxs) else 0)
            if got != want:
                msgs.append(f"step {t} mask {mask}: group {gi} step counter {before_steps[gi]} -> {got}, expected {want}")
        if not any(mask) and seq.visible_digest(opt, params) != before_vis:
            msgs.append(f"step {t}: all gradients absent but the visible optimizer state changed")
        if t >= compare_from and not msgs:
            m, w = seq.compare_to_ref(opt, params, ref, cfg)
            worst = max(worst, w)
            msgs += [f"step {t} mask {mask}: {x}" for x in m[:3]]
        digests.append(seq.visible_digest(opt, params))
        if msgs:
            break
    return msgs, digests, worst, len(hist)


EDITS = [["set", 0, "wd", 0.25], ["set", 0, "lr", 0.125], ["set", 0, "momentum", 0.25]]


def run_unit(unit):
    cfg, depth = unit["cfg"], unit["depth"]
    masks = seq.all_masks(3)
    res = {"evals": 0, "transitions": 0, "states": set(), "outcomes": set(), "nontrivial_count": 0, "violations": [], "samples": [],
           "stats": {"max_err_over_tol": 0.0, "all_absent_steps": 0, "never_present_param_histories": 0}}
    pre = unit["prefix"]
    for rest in itertools.product(masks, repeat=depth - len(pre)):
        hist = pre + [list(m) for m in rest]
        # every node of the history tree is reference-compared once (by the leaf extending it with the first mask);
        # the frame oracle runs at every step of every leaf (it is cheap and bitwise)
        cf = seq.first_compare_index([["step", m] for m in hist], ["step", masks[0]])
        msgs, digests, worst, n = check_history(cfg, hist, compare_from=cf)
        res["evals"] += 1
        res["transitions"] += n
        res["states"].update(digests)
        if digests:
            res["outcomes"].add(digests[-1])
        res["stats"]["max_err_over_tol"] = max(res["stats"]["max_err_over_tol"], worst)
        res["stats"]["all_absent_steps"] += sum(1 for m in hist if not any(m))
        res["stats"]["never_present_param_histories"] += int(any(all(m[i] == 0 for m in hist) for i in range(3)))
        if any(a != b for a, b in zip(hist, hist[1:])):
            res["nontrivial_count"] += 1
        if msgs:
            res["violations"].append({"case": {"cfg": cfg, "hist": hist}, "msg": f"{msgs[0]} [cfg: {brief(cfg)}]", "kind": msgs[0].split(":")[-1][:30]})
            if len(res["violations"]) >= 10:
                break
        elif pre and all(pre[0]):
            m2, _, _, _ = check_history(cfg, hist, compare_from=0, nrg=[1])
            res["stats"]["requires_grad_false_histories"] = res["stats"].get("requires_grad_false_histories", 0) + 1
            if m2:
                res["violations"].append({"case": {"cfg": cfg, "hist": hist, "nrg": [1]}, "msg": f"{m2[0]} [parameter 1 has requires_grad=False but its .grad is assigned; cfg: {brief(cfg)}]", "kind": "nrg" + m2[0].split(":")[-1][:25]})
    # schedulers: one lr / weight-decay / momentum edit at every position of the histories that start with this prefix and
    # continue with single-parameter masks (the masked lists must be current when a stage is switched on later)
    if not cfg.get("groups"):
        singles = [[1, 0, 0], [0, 1, 0], [0, 0, 1], [1, 1, 1]]
        for rest in itertools.product(singles, repeat=min(2, depth - len(pre))):
            base = pre + [list(m) for m in rest]
            for pos in range(1, len(base)):
                for e in EDITS:
                    if e[2] == "momentum" and cfg["momentum"] == 0.0:
                        continue
                    hist = base[:pos] + [e] + base[pos:]
                    msgs, digests, worst, n = check_history(cfg, hist, compare_from=0)
                    res["evals"] += 1
                    res["transitions"] += n
                    res["states"].update(digests)
                    res["stats"]["edit_histories"] = res["stats"].get("edit_histories", 0) + 1
                    res["stats"]["max_err_over_tol"] = max(res["stats"]["max_err_over_tol"], worst)
                    res["nontrivial_count"] += 1
                    if msgs:
                        res["violations"].append({"case": {"cfg": cfg, "hist": hist}, "msg": f"{msgs[0]} [edit {e}; cfg: {brief(cfg)}]", "kind": "edit" + msgs[0].split(":")[-1][:25]})
    # a schedule that passes through 0 and comes back (momentum / weight decay switched off for a while): the masked lists
    # must be current when the stage is switched on again, whatever the gradient-presence changes in between
    if not cfg.get("groups") and (cfg["momentum"] != 0.0 or cfg["wd"] != 0.0):
        singles = [[1, 0, 0], [0, 1, 0], [0, 0, 1], [1, 1, 1]]
        for key, back in (("momentum", cfg["momentum"]), ("wd", cfg["wd"])):
            if back == 0.0:
                continue
            for m1, m2 in itertools.product(singles, repeat=2):
                hist = pre[:1] + [["set", 0, key, 0.0], list(m1), ["set", 0, key, back], list(m2), list(m2)]
                msgs, digests, worst, n = check_history(cfg, hist, compare_from=0)
                res["evals"] += 1
                res["transitions"] += n
                res["states"].update(digests)
                res["stats"]["off_on_schedules"] = res["stats"].get("off_on_schedules", 0) + 1
                res["nontrivial_count"] += 1
                if msgs:
                    res["violations"].append({"case": {"cfg": cfg, "hist": hist}, "msg": f"{msgs[0]} [{key} switched off and on again; cfg: {brief(cfg)}]", "kind": "offon" + msgs[0].split(":")[-1][:25]})
    res["samples"].append({"cfg": brief(cfg), "history": pre + [list(masks[3])] * (depth - len(pre))})
    res["states"] = list(res["states"])
    res["outcomes"] = list(res["outcomes"])
    return res


def brief(cfg):
    return json.dumps({k: v for k, v in cfg.items() if seq.DEFAULT.get(k, "__") != v}, sort_keys=True)


def replay(case):
    msgs, _, _, _ = check_history(case["cfg"], case["hist"], compare_from=0, nrg=case.get("nrg"))
    return msgs
