"""C01 - every step follows the documented Shampoo update rule.

SEQ engine: all event histories up to the stated depth on the real optimizer, for a bounded product of
configurations, compared after every step with the float64 reference model (parameters and every
checkpointable tensor).  Part (c) compares two-group optimizers bitwise with independent optimizers.
"""
from __future__ import annotations

import itertools
import json

from .. import common, seq

ID = "C01"
TECHNIQUE = "explicit exploration of all event histories (gradient masks, lr/wd/momentum edits) up to a depth bound on the real optimizer, conformance with a float64 reference model after every transition"
RULE = (
    "(a) pipeline product {weight decay mode} x {beta1/beta3} x {bias correction} x {momentum/nesterov/dampening} x {grafting} x beta2 on layout "
    "[(3,2),(3,2),(5,)] max_dim 3 (two equal-shaped blocks + one 2-block parameter), all mask histories to depth D; (b) all <=2 deviations "
    "from baselines over shape/max_dim/merge/(freq,start)/dtype pair/inv_root_override/exponent multiplier/ignored dims/beta2/root solver, histories over "
    "{all,none,first-only}; (c) two-group optimizers vs independent optimizers (bitwise); (d) one lr/wd/momentum edit at every position; "
    "(f) step(closure) vs step() after the same gradients (bitwise; closure evaluated once with gradients enabled, value returned); (e) long horizon: every periodic mask pattern (period <= 2 over 3 masks, 10 steps quick; period <= 3 over 4 masks, 13 steps thorough) x (frequency, start) in {(3,3),(2,5),(4,4),(1,1),(5,5)}. "
    "state = digest of (parameters, optimizer.state, param_groups) after each step; non-trivial = history with a mask change or an edit"
)
ASSUMPTIONS = [
    "gradient/parameter values come from fixed dyadic alphabets (+-0.5..+-2); nothing is claimed for other values",
    "lr, betas from dyadic alphabets because the library rounds lr / bias corrections to float32 scalars",
    "momentum/beta1 0 -> non-zero edits excluded (buffers are not allocated)",
    "reference uses the float32-rounded exponent -1/root exactly like the library (C10 states that limit)",
]
TRUSTED = ["numpy.linalg.eigh (float64)", "mc.refs.shampoo.RefOpt", "mc.refs.blocks.ref_blocks"]
EXHAUSTIVE = True

WD = [(0.0, True), (0.5, False), (0.5, True)]
B13 = [(0.0, -1.0), (0.5, -1.0), (0.5, 0.25)]
MOM = [(0.0, False, 0.0), (0.5, False, 0.0), (0.5, False, 0.5), (0.5, True, 0.0), (0.5, True, 0.5)]
GRAFT = [None, ["sgd"], ["adagrad", 1e-1], ["rmsprop", 0.5, 1e-1], ["adam", 0.5, 1e-1]]


def bounds(tier):
    return {
        "quick": {"a": "450 configs x beta2=0.5, depth 2 over all 8 masks; 45 configs depth 3", "b": "<=1 deviation, depth 4", "c": "depth 2", "d": "depth 3, 1 edit", "e": "10 steps, periodic masks of period <= 2"},
        "thorough": {"a": "450 configs x beta2 in {1,0.5}, depth 3 over all 8 masks", "b": "<=2 deviations, depth 5", "c": "depth 3", "d": "depth 3, 1 edit, 30 configs", "e": "13 steps, periodic masks of period <= 3"},
    }[tier]


def pipeline_cfgs(beta2s, seed):
    out = []
    for (wd, dec), (b1, b3), bc, (mom, nest, damp), g, b2 in itertools.product(WD, B13, [True, False], MOM, GRAFT, beta2s):
        out.append(seq.cfg_with(wd=wd, decoupled=dec, betas=[b1, b2], beta3=b3, bias_corr=bc, momentum=mom, nesterov=nest, dampening=damp, graft=g, seed=seed))
    return out


# ---- part (b): deviations from baselines
AXES = {
    "shapes": [[[]], [[4]], [[2, 3]], [[2, 2, 3]], [[2, 1, 2, 2]], [[5, 3]], [[3, 2], [4]]],
    "max_dim": [1, 2, 3, 1024],
    "merge": [True, False],
    "fs": [(1, 1), (1, 3), (2, 2), (2, 3), (3, 4)],
    "dt": [("f32", "f32"), ("f32", "f64"), ("f64", "f64"), ("f64", "f32"), ("bf16", "f32"), ("bf16", "f64")],
    "inv_root_override": [0, 1, 3, [1, 2, 3], [2]],
    "exp_mult": [1.0, 0.5],
    "ignored": [[], [0], [1], [0, 1]],
    "beta2": [1.0, 0.5],
    "graft": [None, ["adam", 0.5, 1e-1]],
    "gscale": [1.0, 2.0 ** -17],  # tiny gradients with epsilon scaled accordingly (1e-1 * gscale^2 ~ 5.8e-12)
    # onehot: diagonal factors first, dense later (sticky diagonal flag); twohot: sparse but non-diagonal factors
    "grad_kind": ["table", "rank1_first", "onehot_first", "zero_second", "twohot"],
    # amortized-computation config of the inverse roots (all compute the same mathematical root)
    "solver": ["eigen", "newton", "higher", "eigen_stab"],
}
BASELINES = [
    {"shapes": [[2, 3]], "max_dim": 3, "merge": True, "fs": (1, 1), "dt": ("f32", "f32"), "inv_root_override": 0, "exp_mult": 1.0, "ignored": [], "beta2": 1.0, "graft": None, "gscale": 1.0, "grad_kind": "table", "solver": "eigen"},
    {"shapes": [[2, 2, 3]], "max_dim": 2, "merge": False, "fs": (2, 2), "dt": ("f64", "f64"), "inv_root_override": 0, "exp_mult": 1.0, "ignored": [], "beta2": 0.5, "graft": ["adam", 0.5, 1e-1], "gscale": 1.0, "grad_kind": "table", "solver": "eigen"},
    {"shapes": [[3, 2], [4]], "max_dim": 1024, "merge": True, "fs": (2, 3), "dt": ("f32", "f32"), "inv_root_override": 0, "exp_mult": 1.0, "ignored": [], "beta2": 0.5, "graft": None, "gscale": 1.0, "grad_kind": "rank1_first", "solver": "eigen"},
]


def dev_cfg(d, seed, soap=False):
    if d["ignored"] and d["inv_root_override"] != 0:
        return None
    pc = ["shampoo", {"exp_mult": d["exp_mult"], "ignored": d["ignored"]}]
    if d["solver"] == "eigen_stab":
        pc[1]["enhance"] = True
    elif d["solver"] != "eigen":
        if d["exp_mult"] != 1.0:
            return None  # the coupled iterations need an integer root
        pc[1]["solver"] = d["solver"]
    return seq.cfg_with(
        shapes=d["shapes"], max_dim=d["max_dim"], merge=d["merge"], freq=d["fs"][0], start=d["fs"][1], pdtype=d["dt"][0], prec_dtype=d["dt"][1],
        inv_root_override=d["inv_root_override"], precond=pc, betas=[0.5, d["beta2"]], momentum=0.5, wd=0.5, decoupled=True, graft=d["graft"], seed=seed,
        lr=0.125, gscale=d["gscale"], grad_kind=d["grad_kind"], eps=1e-1 * d["gscale"] ** 2,
    )


def deviation_cfgs(maxdev, seed):
    seen, out = set(), []
    for base in BASELINES:
        keys = list(AXES)
        for nd in range(0, maxdev + 1):
            for ks in itertools.combinations(keys, nd):
                for vals in itertools.product(*[[v for v in AXES[k] if v != base[k]] for k in ks]):
                    d = dict(base)
                    d.update(dict(zip(ks, vals)))
                    c = dev_cfg(d, seed)
                    if c is None:
                        continue
                    key = json.dumps(c, sort_keys=True)
                    if key not in seen:
                        seen.add(key)
                        out.append(c)
    return out


# ---- part (c): groups
def group_cfgs(seed):
    out = []
    overs = [
        {"lr": 0.125},
        {"eps": 1e-2},
        {"betas": [0.0, 0.5]},
        {"momentum": 0.0, "wd": 0.0},
        {"freq": 2, "start": 2},
        {"lr": 0.25, "betas": [0.25, 1.0], "wd": 0.25, "momentum": 0.25},
        {"nesterov": "flip"},
        {"decoupled": "flip"},
        {"bias_corr": "flip"},
        {"dampening": 0.25, "nesterov": "flip"},
        # options that are usually global
        {"max_dim": 2},
        {"merge": "flip"},
        {"inv_root_override": 2},
        {"graft": ["sgd"]},
        {"max_dim": 1024, "inv_root_override": [1, 2, 3], "eps": 1e-2},
    ]
    for top in (
        dict(betas=[0.5, 0.5], beta3=0.25, momentum=0.5, wd=0.5, graft=["adam", 0.5, 1e-1], start=2),
        dict(betas=[0.5, 1.0], beta3=-1.0, momentum=0.5, nesterov=True, dampening=0.5, graft=["sgd"], bias_corr=False, start=-1, freq=1),
        dict(betas=[0.25, 0.5], beta3=-1.0, graft=None, start=-1, freq=2, precond=["soap", {}]),
    ):
        for ov in overs:
            for split in ([[0], [1, 2]], [[0, 2], [1]]):
                base = seq.cfg_with(seed=seed, **top)
                ov2 = {k: ((not base[k]) if v == "flip" else v) for k, v in ov.items()}
                out.append(seq.cfg_with(seed=seed, groups=[{"params": split[0], "over": {}}, {"params": split[1], "over": ov2}], **dict(top, wd=top.get("wd", 0.5))))
    return out


def work(tier, seed):
    import os

    parts = os.environ.get("VERIF_PARTS")
    units = _work(tier, seed)
    return [u for u in units if not parts or u["part"] in parts]


def _work(tier, seed):
    units = []
    if tier == "quick":
        cfgs = pipeline_cfgs([0.5], seed)
        for ch in common.chunks(cfgs, 10):
            units.append({"part": "a", "cfgs": ch, "depth": 2, "nmask": 3})
        sel = cfgs[seed % 10 :: 10]
        for ch in common.chunks(sel, 2):
            units.append({"part": "a", "cfgs": ch, "depth": 3, "nmask": 3})
        for ch in common.chunks(deviation_cfgs(1, seed), 6):
            units.append({"part": "b", "cfgs": ch, "depth": 4})
        for ch in common.chunks(group_cfgs(seed), 6):
            units.append({"part": "c", "cfgs": ch, "depth": 2})
        for ch in common.chunks(cfgs[(seed + 3) % 15 :: 15], 3):
            units.append({"part": "d", "cfgs": ch, "depth": 3})
        for ch in common.chunks(long_cfgs(tier, seed), 2):
            units.append({"part": "e", "cfgs": ch, "depth": 10, "nmask": 3})
        for ch in common.chunks(cfgs[(seed + 11) % 60 :: 60], 2):
            units.append({"part": "f", "cfgs": ch, "depth": 2})
    else:
        cfgs = pipeline_cfgs([0.5, 1.0], seed)
        for ch in common.chunks(cfgs, 2):
            units.append({"part": "a", "cfgs": ch, "depth": 3, "nmask": 3})
        for ch in common.chunks(deviation_cfgs(2, seed), 8):
            units.append({"part": "b", "cfgs": ch, "depth": 5})
        for ch in common.chunks(group_cfgs(seed), 2):
            units.append({"part": "c", "cfgs": ch, "depth": 3})
        for ch in common.chunks(cfgs[(seed + 3) % 15 :: 15], 2):
            units.append({"part": "d", "cfgs": ch, "depth": 3})
        for ch in common.chunks(long_cfgs(tier, seed), 1):
            units.append({"part": "e", "cfgs": ch, "depth": 13, "nmask": 4})
        for ch in common.chunks(cfgs[(seed + 11) % 30 :: 30], 2):
            units.append({"part": "f", "cfgs": ch, "depth": 3})
    return units


# ----------------------------------------------------------------------------- execution


def hist_list(part, depth, nparams, nmask=3):
    if part in ("a", "c", "f"):
        masks = seq.all_masks(nparams)
        return [[["step", m] for m in h] for h in itertools.product(masks, repeat=depth)], ["step", masks[0]]
    if part == "b":
        masks = [[1] * nparams, [0] * nparams, [1] + [0] * (nparams - 1)]
        masks = [m for i, m in enumerate(masks) if m not in masks[:i]]
        return [[["step", m] for m in h] for h in itertools.product(masks, repeat=depth)], ["step", masks[0]]
    if part == "d":
        masks = [[1] * nparams, [1] + [0] * (nparams - 1)]
        # lr 0: a warm-up schedule starting from zero - state (moments, momentum, step) still advances
        edits = [["set", 0, "lr", 0.125], ["set", 0, "wd", 0.25], ["set", 0, "momentum", 0.25], ["set", 0, "lr", 0.0]]
        hs = []
        for h in itertools.product(masks, repeat=depth):
            steps = [["step", m] for m in h]
            for pos in range(0, depth):
                for e in edits:
                    hs.append(steps[:pos] + [e] + steps[pos:])
        return hs, None
    if part == "e":
        # long horizon: every periodic mask pattern of period <= nmask-1 over the mask alphabet, `depth` steps
        masks = [[1] * nparams, [1] + [0] * (nparams - 1), [0] + [1] * (nparams - 1), [0] * nparams]
        masks = [m for i, m in enumerate(masks) if m not in masks[:i]]
        if nmask <= 3:
            masks = masks[:3]
        seen, hs = set(), []
        for period in range(1, nmask):
            for pat in itertools.product(range(len(masks)), repeat=period):
                h = tuple(pat[t % period] for t in range(depth))
                if h not in seen:
                    seen.add(h)
                    hs.append([["step", masks[i]] for i in h])
        return hs, None
    raise ValueError(part)


def long_cfgs(tier, seed):
    cfgs = pipeline_cfgs([0.5], seed)
    sel = cfgs[(seed + 7) % 40 :: 40] if tier == "quick" else cfgs[(seed + 7) % 20 :: 20]
    fss = [(3, 3), (2, 5)] if tier == "quick" else [(3, 3), (2, 5), (4, 4), (1, 1), (5, 5)]
    out = []
    for c in sel:
        for f, st in fss:
            out.append(dict(c, freq=f, start=st))
    # SOAP and a higher-order tensor with an override list, over many refresh intervals
    out.append(seq.cfg_with(seed=seed, precond=["soap", {}], betas=[0.5, 0.5], freq=3, start=3, graft=None))
    out.append(seq.cfg_with(seed=seed, shapes=[[2, 2, 3], [4]], max_dim=3, merge=False, inv_root_override=[1, 2, 3], freq=2, start=4, betas=[0.5, 0.5], momentum=0.5, graft=["adam", 0.5, 1e-1]))
    return out


def check_one(cfg, hist, part, default_ev):
    """-> (msgs, result)"""
    if part == "d" and any(ev[0] == "set" and ev[2] == "momentum" for ev in hist) and cfg["momentum"] == 0.0:
        return None, None  # 0 -> non-zero momentum edit excluded (buffer not allocated)
    if part == "c":
        return check_groups(cfg, hist)
    if part == "f":
        return check_closure(cfg, hist)
    cf = seq.first_compare_index(hist, default_ev) if default_ev is not None else 0
    resync = cfg["pdtype"] == "bf16"
    r = seq.run_history_checked(cfg, hist, compare_from=cf, resync=resync, tolscale=solver_tolscale(cfg), extra=held_fixed_oracle())
    return r["msgs"], r


def check_closure(cfg, hist):
    """step(closure): the closure is evaluated exactly once with gradients enabled, its value is returned, and the update is
    the one of a plain step() taken after the same gradients were set (bitwise)."""
    import torch

    params, opt = seq.build(cfg)
    tparams = [torch.nn.Parameter(p.detach().clone()) for p in params]
    _, twin = seq.build(cfg, params=tparams)
    msgs, digests = [], []
    for t, ev in enumerate(hist):
        mask = ev[1]
        calls = []

        def closure():
            calls.append(torch.is_grad_enabled())
            seq.set_grads(params, cfg, t, mask)  # what loss.backward() inside a closure does
            return 1.5 + t

        try:
            with torch.no_grad():
                ret = opt.step(closure)
            seq.set_grads(tparams, cfg, t, mask)
            ret2 = twin.step()
        except Exception as e:
            return [f"event {t}: raised {type(e).__name__}: {str(e)[:150]}"], None
        if calls != [True]:
            msgs.append(f"step {t}: closure was evaluated {len(calls)} times / with gradients enabled = {calls} (expected exactly once, enabled)")
        if ret != 1.5 + t:
            msgs.append(f"step {t}: step(closure) returned {ret!r}, the closure returned {1.5 + t}")
        if ret2 is not None:
            msgs.append(f"step {t}: step() without closure returned {ret2!r}")
        for i, (a, b) in enumerate(zip(params, tparams)):
            if not torch.equal(a.detach(), b.detach()) or common.digest_obj(opt.state[a]) != common.digest_obj(twin.state[b]):
                msgs.append(f"step {t} mask {mask}: parameter {i} / its state after step(closure) differs from step() after the same gradients")
                break
        digests.append(seq.visible_digest(opt, params))
        if msgs:
            break
    return msgs[:3], {"worst": 0.0, "digests": digests, "nsteps": len(digests), "refreshes": 0}


def solver_tolscale(cfg):
    """the coupled iterations stop at |M - I|_max <= 1e-10 (seq.make_precond): in float64 that, not the round-off, limits
    the accuracy of the roots (largest deviation seen on the unchanged tree: 1e-8, higher-order solver) -> reference
    tolerance 1e-6 instead of 256 u."""
    pc = cfg["precond"][1] if cfg.get("precond") else {}
    if pc.get("solver") in ("newton", "higher") and common.coarsest(cfg["pdtype"], cfg["prec_dtype"]) == "f64":
        return 1e-6 / (common.K_REF["f64"] * common.UNIT["f64"])
    return 1.0


def held_fixed_oracle():
    """Inverse roots are bit-unchanged on non-refresh steps and for blocks without gradient at refresh steps."""
    import torch

    prev = {}

    def extra(ctx):
        out = []
        opt, params, ref = ctx["opt"], ctx["params"], ctx["ref"]
        for grp in ref.groups:
            if grp.soap:
                continue
            for b in grp.blocks:
                sh = opt.state[params[b.pidx]][f"block_{b.bidx}"]["shampoo"]
                cur = [x.clone() for x in sh.inv_factor_matrices]
                key = (b.pidx, b.bidx)
                if key in prev and not b.last_refreshed:
                    for j, (a, c) in enumerate(zip(prev[key], cur)):
                        if not torch.equal(a, c):
                            out.append(f"p{b.pidx}.b{b.bidx}: inverse root {j} changed on a step where it must be held fixed")
                prev[key] = cur
        return out

    return extra


def check_groups(cfg, hist):
    """Two-group optimizer vs independent optimizers built with each group's effective hyper-parameters: bitwise."""
    import torch

    params, opt = seq.build(cfg)
    n = len(cfg["shapes"])
    twins = []
    for gi, g in enumerate(cfg["groups"]):
        h = seq.effective_group_hyper(cfg, gi)
        sub = dict(h)
        sub["shapes"] = [cfg["shapes"][i] for i in g["params"]]
        sub["groups"] = None
        tp = [torch.nn.Parameter(params[i].detach().clone()) for i in g["params"]]
        _, topt = seq.build(sub, params=tp)
        twins.append((g["params"], tp, topt))
    msgs = []
    t = 0
    for ei, ev in enumerate(hist):
        mask = ev[1]
        seq.set_grads(params, cfg, t, mask)
        for idxs, tp, _ in twins:
            for j, i in enumerate(idxs):
                tp[j].grad = None if params[i].grad is None else params[i].grad.clone()
        try:
            opt.step()
            for _, _, topt in twins:
                topt.step()
        except Exception as e:
            return [f"event {ei}: raised {type(e).__name__}: {str(e)[:150]}"], None
        t += 1
        for gi, (idxs, tp, topt) in enumerate(twins):
            for j, i in enumerate(idxs):
                if not torch.equal(params[i].data, tp[j].data):
                    msgs.append(f"after event {ei} {ev}: param {i} of group {gi} differs from the independent optimizer (max diff {(params[i].data - tp[j].data).abs().max().item():.3e})")
                if common.digest_obj(opt.state[params[i]]) != common.digest_obj(topt.state[tp[j]]):
                    msgs.append(f"after event {ei} {ev}: optimizer state of param {i} (group {gi}) differs from the independent optimizer")
            # effective values visible in param_groups
            h = seq.effective_group_hyper(cfg, gi)
            pg = opt.param_groups[gi]
            if pg["beta3"] != h["beta3"] or pg["start_preconditioning_step"] != h["start"]:
                msgs.append(f"group {gi}: beta3/start in param_groups = {pg['beta3']}/{pg['start_preconditioning_step']}, expected {h['beta3']}/{h['start']}")
        if msgs:
            break
    r = {"worst": 0.0, "digests": [seq.visible_digest(opt, params)], "nsteps": t, "refreshes": 0}
    return msgs[:4], r


def run_unit(unit):
    res = {"evals": 0, "transitions": 0, "states": set(), "outcomes": set(), "nontrivial_count": 0, "violations": [], "samples": [],
           "stats": {"max_err_over_tol": 0.0, "refreshes": 0, "histories_with_mask_change": 0, "configs": 0, "part_" + unit["part"]: 0}}
    part = unit["part"]
    worst_desc = None
    for cfg in unit["cfgs"]:
        res["stats"]["configs"] += 1
        hs, default_ev = hist_list(part, unit["depth"], len(cfg["shapes"]), unit.get("nmask", 3))
        for hist in hs:
            msgs, r = check_one(cfg, hist, part, default_ev)
            if msgs is None:
                continue
            res["evals"] += 1
            res["stats"]["part_" + part] += 1
            if r is not None:
                res["transitions"] += r["nsteps"]
                res["states"].update(r["digests"])
                if r["digests"]:
                    res["outcomes"].add(r["digests"][-1])
                if r["worst"] > res["stats"]["max_err_over_tol"]:
                    res["stats"]["max_err_over_tol"] = r["worst"]
                    worst_desc = f"{r['worst']:.3f} {seq.WORST_NAME[0]} cfg={brief(cfg)} hist={[e[1] if e[0] == 'step' else e for e in hist]}"
                res["stats"]["refreshes"] += r["refreshes"]
            steps = [ev[1] for ev in hist if ev[0] == "step"]
            if any(a != b for a, b in zip(steps, steps[1:])) or len(steps) != len(hist):
                res["nontrivial_count"] += 1
                res["stats"]["histories_with_mask_change"] += 1
            if msgs:
                res["violations"].append({"case": {"part": part, "cfg": cfg, "hist": hist}, "msg": f"part {part}: {msgs[0]}  [cfg: {brief(cfg)}]", "kind": part + msgs[0].split(":")[-2][-20:] if ":" in msgs[0] else part})
                if len(res["violations"]) >= 12:
                    break
        if len(res["violations"]) >= 12:
            break
        if len(res["samples"]) < 1:
            res["samples"].append({"part": part, "cfg": brief(cfg), "history": hs[min(len(hs) - 1, 5)]})
    if worst_desc and res["stats"]["max_err_over_tol"] > 0.3:
        res["stats"]["worst_cases"] = [worst_desc[:400]]
    res["stats"]["undecidable_reference_comparisons"] = seq.UNDECIDED[0]
    seq.UNDECIDED[0] = 0
    res["states"] = list(res["states"])
    res["outcomes"] = list(res["outcomes"])
    return res


def brief(cfg):
    d = {k: v for k, v in cfg.items() if seq.DEFAULT.get(k, "__") != v}
    return json.dumps(d, sort_keys=True)


def replay(case):
    part = case["part"]
    _, default_ev = hist_list(part, 1, len(case["cfg"]["shapes"]))
    if part == "c":
        msgs, _ = check_groups(case["cfg"], case["hist"])
        return msgs
    if part == "f":
        return check_closure(case["cfg"], case["hist"])[0]
    r = seq.run_history_checked(case["cfg"], case["hist"], compare_from=0, resync=case["cfg"]["pdtype"] == "bf16", tolscale=solver_tolscale(case["cfg"]), extra=held_fixed_oracle())
    return r["msgs"]
