"""C17 - the constructor accepts exactly the documented hyper-parameter domain.

ENUM engine: per hyper-parameter a value list {boundaries, interior, just outside (+-1 ulp / +-1), NaN}; ALL single
deviations and ALL pairs (thorough tier: all triples and quadruples too) of deviations from valid baselines are constructed on the real optimizer and compared with
an acceptance table transcribed from the property statement.  Grafting configs and unsupported config types too.
"""
from __future__ import annotations

import itertools
import json
import math

from .. import common

ID = "C17"
TECHNIQUE = "bounded-exhaustive enumeration of all 1- and 2-deviations (thorough: up to 4 simultaneous deviations) from valid baselines over boundary/interior/just-outside/NaN values per hyper-parameter on the real constructor vs an acceptance table transcribed from the statement"
RULE = (
    "value lists per hyper-parameter (lr, beta1, beta2, beta3, epsilon, momentum, dampening, weight_decay, max_preconditioner_dim, precondition_frequency, start_preconditioning_step, "
    "inv_root_override, ignored_dims) with boundary, interior, +-1ulp outside, NaN; all single and pairwise deviations (thorough: all combinations of up to 4 deviating hyper-parameters) from 2 (quick) / 3 (thorough) baselines; grafting epsilon/beta2 grids; unsupported config subclasses. "
    "state = the kwargs tuple; non-trivial = combination containing at least one out-of-domain value"
)
ASSUMPTIONS = ["the acceptance table is a transcription of the property statement", "values are Python floats/ints (no tensors, no bools)"]
TRUSTED = ["mc.props.c17.expected (acceptance table)"]
EXHAUSTIVE = True

NAN = float("nan")
up = lambda x: math.nextafter(x, math.inf)
dn = lambda x: math.nextafter(x, -math.inf)

VALUES = {
    "lr": [0.0, 0.01, 1e10, dn(0.0), -1.0, NAN],
    "beta1": [0.0, 0.9, dn(1.0), 1.0, dn(0.0), 1.5, NAN],
    "beta2": [1.0, 0.5, up(0.0), 0.0, up(1.0), -0.5, NAN],
    "beta3": [-1.0, 0.0, 0.5, dn(1.0), 1.0, dn(0.0), -0.5, up(-1.0), NAN],
    "epsilon": [1e-12, up(0.0), 1.0, 0.0, dn(0.0), NAN],
    "momentum": [0.0, 0.5, dn(1.0), 1.0, dn(0.0), NAN],
    "dampening": [0.0, 0.5, dn(1.0), 1.0, dn(0.0), NAN],
    "weight_decay": [0.0, 1e-5, 10.0, dn(0.0), -1.0, NAN],
    "max_preconditioner_dim": [1, 2, 1024, 0, -1],
    "precondition_frequency": [1, 2, 5, 0, -1],
    "start_preconditioning_step": [-1, 1, 2, 5, 7, 0, -2],
    # "t:..." = the same override given as a tuple (documented type: int | Sequence[int])
    "inv_root_override": [0, 1, 4, [2], [1, 2], [0, 3], [], -1, [1, -1], "t:1,2", "t:2,-1", "t:"],
    # "default" = preconditioner_config argument omitted (the library's default config object)
    "ignored_dims": [[], [0], [1, 0], "default"],
}
BASELINES = [
    dict(lr=0.01, beta1=0.9, beta2=1.0, beta3=-1.0, epsilon=1e-12, momentum=0.0, dampening=0.0, weight_decay=0.0, max_preconditioner_dim=1024, precondition_frequency=1, start_preconditioning_step=-1, inv_root_override=0, ignored_dims=[]),
    dict(lr=0.5, beta1=0.0, beta2=0.5, beta3=0.25, epsilon=1e-2, momentum=0.5, dampening=0.5, weight_decay=0.5, max_preconditioner_dim=2, precondition_frequency=5, start_preconditioning_step=7, inv_root_override=[1, 2], ignored_dims=[]),
    dict(lr=0.0, beta1=0.5, beta2=0.75, beta3=0.0, epsilon=1.0, momentum=0.25, dampening=0.0, weight_decay=1e-5, max_preconditioner_dim=1, precondition_frequency=2, start_preconditioning_step=2, inv_root_override=0, ignored_dims=[0]),
]


def bounds(tier):
    return {"deviations": 4 if tier == "thorough" else 2, "baselines": len(BASELINES) if tier == "thorough" else 2}


def expected(k):
    """acceptance table transcribed from the statement -> (accept: bool, beta3_eff, start_eff)"""
    ok = True
    ok &= k["lr"] >= 0
    ok &= 0 <= k["beta1"] < 1
    ok &= 0 < k["beta2"] <= 1
    ok &= (k["beta3"] == -1) or (0 <= k["beta3"] < 1)
    ok &= k["epsilon"] > 0
    ok &= 0 <= k["momentum"] < 1
    ok &= 0 <= k["dampening"] < 1
    ok &= k["weight_decay"] >= 0
    ok &= k["max_preconditioner_dim"] >= 1
    ok &= k["precondition_frequency"] >= 1
    s = k["start_preconditioning_step"]
    ok &= (s == -1) or (s >= k["precondition_frequency"])
    ov = decode_override(k["inv_root_override"])
    ok &= all(e >= 0 for e in ov) if isinstance(ov, (list, tuple)) else ov >= 0
    ok &= (k["ignored_dims"] in ([], "default")) or (ov == 0 and not isinstance(ov, (list, tuple)))
    b3 = k["beta1"] if k["beta3"] == -1 else k["beta3"]
    st = k["precondition_frequency"] if s == -1 else s
    return bool(ok), b3, st


def decode_override(ov):
    if isinstance(ov, str):
        return tuple(int(x) for x in ov[2:].split(",") if x)
    return ov


def construct(torch, k):
    from distributed_shampoo.distributed_shampoo import DistributedShampoo
    from distributed_shampoo.shampoo_types import ShampooPreconditionerConfig

    p = torch.nn.Parameter(torch.ones(2, 3))
    pc = {} if k["ignored_dims"] == "default" else {"preconditioner_config": ShampooPreconditionerConfig(ignored_dims=list(k["ignored_dims"]))}
    return DistributedShampoo(
        [p], lr=k["lr"], betas=(k["beta1"], k["beta2"]), beta3=k["beta3"], epsilon=k["epsilon"], momentum=k["momentum"], dampening=k["dampening"], weight_decay=k["weight_decay"],
        max_preconditioner_dim=k["max_preconditioner_dim"], precondition_frequency=k["precondition_frequency"], start_preconditioning_step=k["start_preconditioning_step"],
        inv_root_override=decode_override(k["inv_root_override"]), **pc,
    )


def check(torch, k):
    acc, b3, st = expected(k)
    try:
        opt = construct(torch, k)
        err = None
    except ValueError as e:
        err = "ValueError"
    except Exception as e:
        err = f"{type(e).__name__}: {str(e)[:100]}"
    if acc and err is not None:
        return [f"constructor rejected an in-domain combination with {err}"]
    if not acc and err is None:
        return ["constructor accepted an out-of-domain combination"]
    if not acc and err != "ValueError":
        return [f"out-of-domain combination raised {err} instead of ValueError"]
    if acc:
        g = opt.param_groups[0]
        if g["beta3"] != b3:
            return [f"param_groups beta3 = {g['beta3']}, expected {b3}"]
        if g["start_preconditioning_step"] != st:
            return [f"param_groups start_preconditioning_step = {g['start_preconditioning_step']}, expected {st}"]
    return []


def enum_kwargs(bases, maxdev=2):
    keys = list(VALUES)
    for bi, base in enumerate(bases):
        yield dict(base)
        for nd in range(1, maxdev + 1):
            for ks in itertools.combinations(keys, nd):
                for vals in itertools.product(*[[v for v in VALUES[k] if not same(v, base[k])] for k in ks]):
                    d = dict(base)
                    d.update(dict(zip(ks, vals)))
                    yield d


def same(a, b):
    if isinstance(a, float) and isinstance(b, float) and math.isnan(a) and math.isnan(b):
        return True
    return type(a) is type(b) and a == b


def work(tier, seed):
    bases = BASELINES if tier == "thorough" else BASELINES[:2]
    allk = list(enum_kwargs(bases, 4 if tier == "thorough" else 2))
    units = [{"part": "ctor", "items": ch} for ch in common.chunks(allk, max(50, len(allk) // 64))]
    units.append({"part": "configs"})
    return units


def graft_cases():
    eps_vals = [1e-10, up(0.0), 1.0, 0.0, dn(0.0), NAN]
    b2_vals = [1.0, 0.5, up(0.0), 0.0, up(1.0), -0.5, NAN]
    for e in eps_vals:
        yield ("adagrad", e, None, e > 0)
    for e in eps_vals:
        for b in b2_vals:
            yield ("rmsprop", e, b, (e > 0) and (0 < b <= 1))
            yield ("adam", e, b, (e > 0) and (0 < b <= 1))


def check_configs(torch):
    from dataclasses import dataclass

    from distributed_shampoo.distributed_shampoo import DistributedShampoo
    from distributed_shampoo.shampoo_types import AdaGradGraftingConfig, AdamGraftingConfig, DistributedConfig, GraftingConfig, PreconditionerConfig, RMSpropGraftingConfig
    from matrix_functions_types import DefaultEigenConfig

    out, n = [], 0
    for kind, e, b, acc in graft_cases():
        n += 1
        try:
            if kind == "adagrad":
                g = AdaGradGraftingConfig(epsilon=e)
            elif kind == "rmsprop":
                g = RMSpropGraftingConfig(beta2=b, epsilon=e)
            else:
                g = AdamGraftingConfig(beta2=b, epsilon=e)
            p = torch.nn.Parameter(torch.ones(2, 3))
            DistributedShampoo([p], grafting_config=g)
            err = None
        except ValueError:
            err = "ValueError"
        except Exception as ex:
            err = type(ex).__name__
        if acc and err:
            out.append(({"graft": [kind, e, b]}, f"grafting config {kind}(eps={e}, beta2={b}) in domain but raised {err}"))
        if not acc and err != "ValueError":
            out.append(({"graft": [kind, e, b]}, f"grafting config {kind}(eps={e}, beta2={b}) out of domain but {'accepted' if err is None else 'raised ' + err}"))

    @dataclass
    class MyGraft(GraftingConfig):
        pass

    @dataclass
    class MyDist(DistributedConfig):
        pass

    @dataclass(kw_only=True)
    class MyPre(PreconditionerConfig):
        amortized_computation_config: object = None

    from distributed_shampoo.shampoo_types import DDPShampooConfig, SGDGraftingConfig, ShampooPreconditionerConfig

    @dataclass(kw_only=True)
    class MyAdam(AdamGraftingConfig):
        pass

    @dataclass(kw_only=True)
    class MyRMS(RMSpropGraftingConfig):
        pass

    @dataclass(kw_only=True)
    class MyAda(AdaGradGraftingConfig):
        pass

    @dataclass
    class MySGD(SGDGraftingConfig):
        pass

    @dataclass(kw_only=True)
    class MyShampooPre(ShampooPreconditionerConfig):
        pass

    subclassed = [("grafting-subclass-adam", {"grafting_config": MyAdam()}), ("grafting-subclass-rmsprop", {"grafting_config": MyRMS()}), ("grafting-subclass-adagrad", {"grafting_config": MyAda()}),
                  ("grafting-subclass-sgd", {"grafting_config": MySGD()}), ("preconditioner-subclass", {"preconditioner_config": MyShampooPre()})]
    for name, kw in [("grafting", {"grafting_config": MyGraft()}), ("distributed", {"distributed_config": MyDist()}), ("preconditioner", {"preconditioner_config": MyPre(amortized_computation_config=DefaultEigenConfig)})] + subclassed:
        for bad_lr in (False, True):
            n += 1
            p = torch.nn.Parameter(torch.ones(2, 3))
            try:
                DistributedShampoo([p], lr=-1.0 if bad_lr else 0.01, **kw)
                err = None
            except NotImplementedError:
                err = "NotImplementedError"
            except ValueError:
                err = "ValueError"
            except Exception as ex:
                err = type(ex).__name__
            allowed = {"NotImplementedError"} | ({"ValueError"} if bad_lr else set())
            if err not in allowed:
                out.append(({"unsupported": name, "bad_lr": bad_lr}, f"unsupported {name} config type: constructor {'succeeded' if err is None else 'raised ' + err}, expected {sorted(allowed)}"))
    # the same unsupported types given for ONE parameter group only (first or second), the other group / the optimizer
    # level using None or a supported config
    for name, key, val in (("grafting", "grafting_config", MyGraft()), ("preconditioner", "preconditioner_config", MyPre(amortized_computation_config=DefaultEigenConfig))):
        for where in (0, 1):
            for top in (None, "supported"):
                n += 1
                ps = [torch.nn.Parameter(torch.ones(2, 3)), torch.nn.Parameter(torch.ones(3))]
                groups = [{"params": [ps[0]]}, {"params": [ps[1]]}]
                groups[where][key] = val
                kw = {}
                if top == "supported" and key == "grafting_config":
                    kw[key] = SGDGraftingConfig()
                try:
                    DistributedShampoo(groups, lr=0.01, **kw)
                    err = None
                except Exception as ex:
                    err = type(ex).__name__
                if err != "NotImplementedError":
                    out.append(({"unsupported_group": name, "where": where, "top": top}, f"unsupported {name} config type in parameter group {where} only: constructor {'succeeded' if err is None else 'raised ' + err}, expected NotImplementedError"))
    # ignored dims together with a non-default inverse-root override must be rejected for every preconditioner config type
    from distributed_shampoo.shampoo_types import EigenvalueCorrectedShampooPreconditionerConfig
    from matrix_functions_types import DefaultEighEigenvectorConfig, QRConfig

    for pcname, mk in (("shampoo", lambda ig: ShampooPreconditionerConfig(ignored_dims=ig)), ("soap-eigh", lambda ig: EigenvalueCorrectedShampooPreconditionerConfig(ignored_dims=ig)),
                       ("soap-qr", lambda ig: EigenvalueCorrectedShampooPreconditionerConfig(amortized_computation_config=QRConfig(), ignored_dims=ig))):
        for ig in ([], [0], [1, 0]):
            for ov in (0, 2, [1, 2], (2, 2)):
                n += 1
                want_ok = (ig == []) or ov == 0
                try:
                    DistributedShampoo([torch.nn.Parameter(torch.ones(2, 3))], lr=0.01, inv_root_override=ov, preconditioner_config=mk(list(ig)))
                    err = None
                except ValueError:
                    err = "ValueError"
                except Exception as ex:
                    err = type(ex).__name__
                if want_ok and err is not None:
                    out.append(({"pc": pcname, "ignored": list(ig), "override": str(ov)}, f"{pcname} config with ignored_dims={ig} and inv_root_override={ov} is in the domain but raised {err}"))
                if not want_ok and err != "ValueError":
                    out.append(({"pc": pcname, "ignored": list(ig), "override": str(ov)}, f"{pcname} config with ignored_dims={ig} and inv_root_override={ov}: constructor {'succeeded' if err is None else 'raised ' + err}, expected ValueError"))
    return out, n


def run_unit(unit):
    import torch

    res = {"evals": 0, "transitions": 0, "states": set(), "outcomes": set(), "nontrivial_count": 0, "violations": [], "samples": [], "stats": {"accepted": 0, "rejected": 0, "config_cases": 0}}
    if unit["part"] == "configs":
        bad, n = check_configs(torch)
        res["evals"] += n
        res["transitions"] += n
        res["stats"]["config_cases"] += n
        res["states"].add(common.h64("configs"))
        for case, m in bad:
            res["violations"].append({"case": case, "msg": m, "kind": "config"})
    else:
        for k in unit["items"]:
            msgs = check(torch, k)
            acc = expected(k)[0]
            res["evals"] += 1
            res["transitions"] += 1
            res["states"].add(common.h64(json.dumps(k, sort_keys=True, default=repr)))
            res["outcomes"].add(int(acc))
            res["stats"]["accepted" if acc else "rejected"] += 1
            if not acc:
                res["nontrivial_count"] += 1
            if msgs:
                res["violations"].append({"case": {"kwargs": {a: (repr(b) if isinstance(b, float) else b) for a, b in k.items()}}, "msg": f"{msgs[0]}: {k}", "kind": msgs[0][:30]})
        res["samples"].append({"kwargs": {a: repr(b) for a, b in unit["items"][len(unit["items"]) // 2].items()}})
    res["violations"] = res["violations"][:30]
    res["states"] = list(res["states"])
    res["outcomes"] = list(res["outcomes"])
    return res


def replay(case):
    import torch

    if "kwargs" in case:
        k = {a: (float(b) if isinstance(b, str) and a not in ("inv_root_override", "ignored_dims") else b) for a, b in case["kwargs"].items()}
        return check(torch, k)
    bad, _ = check_configs(torch)
    key = json.dumps(case, sort_keys=True, default=str)  # NaN-safe comparison
    return [m for c, m in bad if json.dumps(c, sort_keys=True, default=str) == key]
