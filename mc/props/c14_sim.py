"""SIM part of C14: the real DDP / HSDP / HybridShard distributors on simulated ranks.  After construction, on every rank:
each block's communication buffer is a view of the gather buffer, typed in the communication dtype, shaped like the
block (hence at least as large as the block in the communication dtype), inside its owner's segment, and no two views
overlap; the local buffer is this rank's segment; within a group the ownership selectors are disjoint and cover all
blocks; optimizer state exists exactly for the owned blocks."""
from __future__ import annotations

import itertools
import json
from math import prod

from .. import common, distrun, seq, sim


def units(tier, seed):
    out = []
    kinds = [("ddp", 2, 2), ("ddp", 2, 1), ("ddp", 3, 3), ("ddp", 4, 2), ("hsdp", 2, 2), ("hsdp", 2, 1), ("hybrid", 2, 2), ("hybrid", 3, 1)]
    if tier == "thorough":
        kinds += [("ddp", 4, 4), ("ddp", 6, 3), ("hsdp", 3, 1), ("hybrid", 2, 1), ("hybrid", 2, 3)]
    for (kind, a, b), comm, pd, cp in itertools.product(kinds, ["FP32", "BF16", "FP16"], ["f32", "bf16", "f64"], [False, True]):
        if tier == "quick" and (pd == "f64" or comm == "FP16") and kind != "hybrid":
            continue
        out.append({"part": "sim", "kind": kind, "a": a, "b": b, "comm": comm, "pd": pd, "cp": cp, "seed": seed})
    # second layout (the most loaded rank is not rank 0) and replicate groups split by num_trainers_per_group
    extra = [("ddp", 2, 2, -1, "B"), ("ddp", 3, 3, -1, "B"), ("hsdp", 2, 1, -1, "B"), ("hybrid", 2, 1, -1, "B"), ("hsdp", 4, 1, 2, "A"), ("hsdp", 2, 2, 1, "A"), ("hybrid", 4, 1, 2, "A"), ("hybrid", 2, 2, 1, "B")]
    if tier == "thorough":
        extra += [("ddp", 4, 2, -1, "B"), ("hsdp", 4, 1, 2, "B"), ("hsdp", 2, 2, 2, "B"), ("hybrid", 4, 1, 1, "A"), ("hybrid", 2, 2, 2, "B"), ("hsdp", 4, 1, 4, "A")]
    for (kind, a, b, nt, lay), comm, cp in itertools.product(extra, ["FP32", "BF16"], [False, True]):
        out.append({"part": "sim", "kind": kind, "a": a, "b": b, "comm": comm, "pd": "f32", "cp": cp, "seed": seed, "ntpg": nt, "layout": lay})
    return out


SHAPES = [[6, 5], [7], [3, 3], [2, 2, 5]]  # 17-element and larger blocks so that half-sized slots would not fit
# layout B: blocks of 48, 32, 32 elements (192, 128, 128 bytes in float32): largest-first greedy on two ranks leaves rank 1
# (not rank 0) with the largest total
LAYOUTS = {"A": (SHAPES, 6, True), "B": ([[6, 8], [4, 8], [8, 4]], 8, False)}


def program(u):
    kind, comm, pd, cp, seed = u["kind"], u["comm"], u["pd"], u["cp"], u["seed"]
    ntpg = u.get("ntpg", -1)
    SHAPES, max_dim, merge = LAYOUTS[u.get("layout", "A")]

    def fn(rank, W):
        import torch
        from distributed_shampoo.distributed_shampoo import DistributedShampoo
        from distributed_shampoo.shampoo_types import DISTRIBUTOR, DDPShampooConfig, FSDPParameterMetadata, HSDPShampooConfig, HybridShardShampooConfig
        from torch.distributed.device_mesh import init_device_mesh
        from torch.distributed.fsdp import ShardingStrategy
        from torch.distributed.tensor import DTensor, Replicate, Shard

        dt = common.dtype_of(pd)
        cfg = seq.cfg_with(shapes=SHAPES, max_dim=max_dim, merge=merge, pdtype=pd, prec_dtype="f32", betas=[0.5, 0.5], momentum=0.5, graft=["adam", 0.5, 1e-1], lr=0.25, seed=seed)
        kw = seq.ctor_kwargs(cfg)
        fulls = [torch.tensor(seq.init_param(i, tuple(s), seed), dtype=dt).reshape(s) for i, s in enumerate(SHAPES)]
        if kind == "ddp":
            params = [torch.nn.Parameter(f.clone()) for f in fulls]
            dc = DDPShampooConfig(communication_dtype=distrun.comm_enum(comm), num_trainers_per_group=u["b"], communicate_params=cp)
            gsize, grank = u["b"], rank % u["b"]
        elif kind == "hsdp":
            R, S = u["a"], u["b"]
            mesh = init_device_mesh("cpu", (R, S), mesh_dim_names=("replicate", "shard"))
            srank = rank % S
            params, meta = [], {}
            for i, f in enumerate(fulls):
                n = f.numel()
                c = -(-n // S)
                a, b = min(n, srank * c), min(n, (srank + 1) * c)
                p = torch.nn.Parameter(f.reshape(-1)[a:b].clone())
                params.append(p)
                meta[p] = FSDPParameterMetadata(fqn=f"p{i}", shape=f.shape, numel=n, start_idx=a, end_idx=b, sharding_strategy=ShardingStrategy.HYBRID_SHARD)
            dc = HSDPShampooConfig(param_to_metadata=meta, device_mesh=mesh, communication_dtype=distrun.comm_enum(comm), num_trainers_per_group=ntpg, communicate_params=cp)
            gsize = R if ntpg == -1 else ntpg
            grank = (rank // S) % gsize
        else:
            R, S = u["a"], u["b"]
            mesh = init_device_mesh("cpu", (R, S), mesh_dim_names=("replicate", "shard"))
            srank = rank % S
            params = []
            for f in fulls:
                n0 = f.shape[0]
                c = -(-n0 // S)
                a, b = min(n0, srank * c), min(n0, (srank + 1) * c)
                params.append(torch.nn.Parameter(DTensor.from_local(f[a:b].clone(), mesh, [Replicate(), Shard(0)], run_check=False, shape=f.shape, stride=f.stride())))
            dc = HybridShardShampooConfig(device_mesh=mesh, communication_dtype=distrun.comm_enum(comm), num_trainers_per_group=ntpg, communicate_params=cp)
            gsize = R if ntpg == -1 else ntpg
            grank = (rank // S) % gsize
        opt = DistributedShampoo(params, distributed_config=dc, **kw)
        d = opt._per_group_state_lists[0][DISTRIBUTOR]
        msgs = []
        gbuf = d._global_dist_buffer
        cdt = common.dtype_of(distrun.COMM[comm])
        esz = torch.empty(0, dtype=cdt).element_size()
        seg = gbuf.numel() // gsize if gsize else 0
        if gbuf.dtype != torch.int8 or gbuf.numel() != seg * gsize:
            msgs.append(f"gather buffer has {gbuf.numel()} bytes, not a multiple of the group size {gsize}")
        views = d._global_dist_blocked_buffers
        blocks = d._global_blocked_params
        spans = []
        for i, (v, blk) in enumerate(zip(views, blocks)):
            if v.untyped_storage().data_ptr() != gbuf.untyped_storage().data_ptr():
                msgs.append(f"buffer of block {i} is not a view of the gather buffer")
                continue
            if v.dtype != cdt or tuple(v.shape) != tuple(blk.shape):
                msgs.append(f"buffer of block {i} has dtype {v.dtype} / shape {tuple(v.shape)}, expected {cdt} / {tuple(blk.shape)}")
            a = v.storage_offset() * v.element_size()
            b = a + v.numel() * v.element_size()
            if v.numel() * v.element_size() < blk.numel() * esz:
                msgs.append(f"buffer of block {i} has {v.numel() * v.element_size()} bytes, the block needs {blk.numel() * esz} in the communication dtype")
            spans.append((a, b, i))
        ss = sorted(spans)
        for (a1, b1, i1), (a2, b2, i2) in zip(ss, ss[1:]):
            if a2 < b1:
                msgs.append(f"buffers of blocks {i1} and {i2} overlap: bytes [{a1},{b1}) and [{a2},{b2})")
                break
        lb = d._local_dist_buffer
        if lb.untyped_storage().data_ptr() != gbuf.untyped_storage().data_ptr() or lb.storage_offset() != grank * seg or lb.numel() != seg:
            msgs.append(f"local buffer is bytes [{lb.storage_offset()},{lb.storage_offset() + lb.numel()}) instead of this rank's segment [{grank * seg},{(grank + 1) * seg})")
        sel = tuple(bool(x) for x in d._distributor_selector)
        # optimizer state exactly for the owned blocks
        owned_keys = {(bi.composable_block_ids) for bi in d.local_block_info_list}
        have = set()
        for pi, p in enumerate(params):
            for k, v in opt.state[p].items():
                if k != "step":
                    have.add((pi, k))
        # placement of the state DTensors: within this rank's distribution group the mesh of a state tensor contains the owner only
        from torch.distributed.tensor import DTensor as _DT

        if kind == "ddp":
            my_group = set(range((rank // u["b"]) * u["b"], (rank // u["b"] + 1) * u["b"]))
        else:
            my_group = {r for r in range(W) if r % u["b"] == rank % u["b"] and (r // u["b"]) // gsize == (rank // u["b"]) // gsize}

        def walk(o):
            if isinstance(o, _DT):
                yield o
            elif isinstance(o, dict):
                for v in o.values():
                    yield from walk(v)
            elif isinstance(o, (list, tuple)):
                for v in o:
                    yield from walk(v)
            elif hasattr(o, "__dict__"):
                yield from walk(vars(o))

        for pi, p in enumerate(params):
            for k, v in opt.state[p].items():
                if k == "step":
                    continue
                for t in walk(v):
                    mesh_ranks = set(t.device_mesh.mesh.reshape(-1).tolist())
                    if mesh_ranks & my_group != {rank}:
                        msgs.append(f"state of block {k} of parameter {pi} is placed on mesh {sorted(mesh_ranks)}: within the distribution group {sorted(my_group)} it must live on the owner (rank {rank}) only")
                        break
                else:
                    continue
                break
        if len(have) != len(owned_keys) or len(owned_keys) != sum(sel):
            msgs.append(f"optimizer state exists for {len(have)} blocks but this rank owns {sum(sel)} ({len(owned_keys)} block infos)")
        # one step must run with these buffers (sizes are really sufficient)
        for i, p in enumerate(params):
            g = torch.tensor(seq.grad_value(i, 0, tuple(SHAPES[i]), seed), dtype=dt).reshape(SHAPES[i])
            if kind == "ddp":
                p.grad = g
            elif kind == "hsdp":
                m = d._param_to_metadata[p]
                p.grad = g.reshape(-1)[m.start_idx : m.end_idx].clone()
            else:
                n0 = g.shape[0]
                c = -(-n0 // u["b"])
                a, b = min(n0, (rank % u["b"]) * c), min(n0, (rank % u["b"] + 1) * c)
                p.grad = DTensor.from_local(g[a:b].clone(), mesh, [Replicate(), Shard(0)], run_check=False, shape=g.shape, stride=g.stride())
        opt.step()
        return {"msgs": msgs, "sel": sel, "spans": spans, "seg": seg, "grank": grank, "group": (rank % u["b"], (rank // u["b"]) // gsize) if kind != "ddp" else rank // u["b"], "nstate": len(have), "nblocks": len(blocks), "have": sorted((pi, str(k)) for pi, k in have)}

    return fn


def run_case(u):
    W = u["a"] * u["b"] if u["kind"] != "ddp" else u["a"]
    s = sim.Sched(W).run(program(u))
    what = f"{u['kind']} {'W=%d group=%d' % (u['a'], u['b']) if u['kind'] == 'ddp' else 'mesh=%dx%d' % (u['a'], u['b'])} comm={u['comm']} param dtype={u['pd']} communicate_params={u['cp']} num_trainers_per_group={u.get('ntpg', -1)} layout={u.get('layout', 'A')}"
    msgs = []
    if s.deadlock is not None:
        msgs.append(f"{what}: DEADLOCK {s.deadlock}")
    for r, e in enumerate(s.errors):
        if e:
            msgs.append(f"{what}: rank {r} raised {e.splitlines()[0][:220]}")
    if not msgs:
        for r in range(W):
            msgs += [f"{what}: rank {r}: {m}" for m in s.results[r]["msgs"][:2]]
        groups = {}
        for r in range(W):
            groups.setdefault(s.results[r]["group"], []).append(r)
        for gid, rs in groups.items():
            sels = [s.results[r]["sel"] for r in rs]
            if len({len(x) for x in sels}) != 1:
                msgs.append(f"{what}: ranks of group {gid} see different numbers of blocks")
                continue
            for i in range(len(sels[0])):
                owners = [rs[j] for j, x in enumerate(sels) if x[i]]
                if len(owners) != 1:
                    msgs.append(f"{what}: block {i} of group {gid} is owned by ranks {owners} (exactly one expected)")
                    break
                o = owners[0]
                seg, gr = s.results[o]["seg"], s.results[o]["grank"]
                a, b, _ = next(sp for sp in s.results[o]["spans"] if sp[2] == i)
                if not (gr * seg <= a and b <= (gr + 1) * seg):
                    msgs.append(f"{what}: buffer of block {i} bytes [{a},{b}) lies outside its owner's segment [{gr * seg},{(gr + 1) * seg})")
                    break
            keys = [tuple(k) for r in rs for k in s.results[r]["have"]]
            if len(keys) != len(set(keys)):
                dup = sorted({k for k in keys if keys.count(k) > 1})[:3]
                msgs.append(f"{what}: group {gid}: optimizer state for the block ids {dup} exists on more than one rank (a block's state must live on exactly one rank, under its own id)")
            if sum(s.results[r]["nstate"] for r in rs) != s.results[rs[0]]["nblocks"]:
                msgs.append(f"{what}: group {gid}: optimizer state blocks per rank {[s.results[r]['nstate'] for r in rs]} do not sum to the number of blocks {s.results[rs[0]]['nblocks']}")
    key = common.h64(what, [s.results[r]["spans"] if s.results[r] else None for r in range(W)])
    return msgs, key, len(s.points)


def run_unit(unit):
    res = {"evals": 0, "transitions": 0, "states": set(), "outcomes": set(), "nontrivial_count": 0, "violations": [], "samples": [], "stats": {"sim_distributor_runs": 0}}
    try:
        msgs, key, npts = run_case(unit)
    except sim.HarnessError as e:
        return {"harness_error": str(e), "arg": json.dumps(unit)}
    res["evals"] += 1
    res["transitions"] += npts
    res["states"].add(key)
    res["outcomes"].add(key)
    res["nontrivial_count"] += 1
    res["stats"]["sim_distributor_runs"] += 1
    if msgs:
        res["violations"].append({"case": unit, "msg": msgs[0][:500], "kind": msgs[0].split(":")[-1][:25]})
    res["samples"].append(unit)
    res["states"] = list(res["states"])
    res["outcomes"] = list(res["outcomes"])
    return res


def replay(case):
    return run_case(case)[0]
