"""C08 - fully_shard / hybrid-shard Shampoo equals serial Shampoo on the local shards.

SIM engine.  Parameters are real DTensors (dim-0 sharded with torch's chunk rule, built with DTensor.from_local on real
1-D / 2-D device meshes over simulated ranks), absent gradients are None.  FullyShard (communication free): every
rank's param.to_local() after each step equals the serial optimizer on that local tensor as an ordinary parameter,
parameters with an empty local shard are skipped and never touched.  HybridShard: same result while blocks are
distributed over the replicate group; replicas bit-identical; trace oracles; no deadlock; schedules up to a deviation
bound on core histories.
"""
from __future__ import annotations

import itertools
import json
from math import prod

from .. import common, distrun, seq, sim

ID = "C08"
TECHNIQUE = "exploration of all gradient-presence histories x shapes x shard counts x meshes on the real FullyShard/HybridShard distributors with real DTensor parameters on simulated ranks (deviation-bounded schedule exploration for HybridShard), differential against the serial optimizer on the local shards"
RULE = (
    "parameter sets {(12,) + two of (1,3),(2,3),(3,3),(5,2),(4,),(4,2)} x shard counts S in {1,2,3,4} (chunk rule: ranks without rows included) x replicate sizes {1,2,3} x num_trainers_per_group (divisors,-1) x comm dtype x "
    "communicate_params x 4 optimizer configs x all mask histories of depth 2 over 3 parameters; HybridShard core histories with all schedules up to deviation bound B. "
    "state = rank-state digest after each step; non-trivial = some rank holds an empty shard of a parameter or a gradient is absent"
)
ASSUMPTIONS = [
    "DTensor.from_local(run_check=False) builds the dim-0 shards with torch.chunk's rule; fully_shard itself (FSDP2 module wrapping) is not executed",
    "every rank keeps at least one non-empty parameter (a rank with nothing trips the documented constructor assertion)",
    "transport model as in C06",
]
TRUSTED = ["torch DTensor.from_local / to_local", "mc.sim", "serial optimizer as oracle"]
EXHAUSTIVE = True

# the first parameter (12,) gives every shard rank rows for S in 1..4 (a rank with nothing at all trips the documented
# constructor assertion); the others produce uneven and empty shards under torch.chunk's rule
PSETS = [
    [[12], [1, 3], [4, 2]],
    [[12], [2, 3], [5, 2]],
    [[12], [3, 3], [4]],
]


def opt_cfgs():
    return [
        dict(precond=["shampoo", {}], graft=None, betas=[0.0, 1.0], lr=0.25, start=1),
        dict(precond=["shampoo", {}], graft=["adam", 0.5, 1e-1], betas=[0.5, 0.5], momentum=0.5, wd=0.5, lr=0.25, start=2),
        dict(precond=["soap", {}], graft=None, betas=[0.5, 0.5], lr=0.25, start=1),
        dict(precond=["shampoo", {}], graft=["sgd"], betas=[0.5, 1.0], bias_corr=False, momentum=0.5, nesterov=True, lr=0.25, start=2),
    ]


def bounds(tier):
    return {"shard_counts": [1, 2, 3, 4], "replicate": [1, 2, 3], "depth": 2, "deviation_bound": 1 if tier == "quick" else 2}


def PDT(unit, pi=None):
    if pi is not None and unit.get("pdtypes"):
        return common.dtype_of(unit["pdtypes"][pi])  # mixed-precision parameter group
    return common.dtype_of(unit["cfg_kw"].get("pdtype", "f32"))


def rows_of(n0, S, s):
    """torch.chunk rule along dim 0: chunk size ceil(n0/S)."""
    c = -(-n0 // S)
    a, b = min(n0, s * c), min(n0, (s + 1) * c)
    return a, b


def work(tier, seed):
    units = []
    masks = seq.all_masks(3)
    h2 = [[list(a), list(b)] for a, b in itertools.product(masks, repeat=2)]
    i = 0
    for pi, ps in enumerate(PSETS):
        for S in (1, 2, 3, 4):
            for oi, oc in enumerate(opt_cfgs()):
                i += 1
                if tier == "quick" and (i + seed) % 4 != 0:
                    continue
                units.append({"kind": "fully", "pset": ps, "S": S, "cfg_kw": oc, "hists": h2, "seed": seed})
    for pi, ps in enumerate(PSETS):
        for (R, S) in [(1, 2), (2, 1), (2, 2), (3, 1), (2, 3), (3, 2)]:
            if tier == "quick" and R * S > 4:
                continue
            for g in [d for d in range(1, R + 1) if R % d == 0] + [-1]:
                for comm, cp, (oi, oc) in itertools.product(["FP32", "BF16", "FP16"], [False, True], enumerate(opt_cfgs())):
                    i += 1
                    if tier == "quick" and (i + seed) % 14 != 0:
                        continue
                    # state dtypes: float32 factors (default) or float64 factors / float64 parameters
                    dts = [("f32", "f32"), ("f32", "f64"), ("f64", "f64")][i % 3]
                    units.append({"kind": "hybrid", "pset": ps, "R": R, "S": S, "g": g, "comm": comm, "cp": cp, "cfg_kw": dict(oc, pdtype=dts[0], prec_dtype=dts[1]), "hists": h2 if tier == "thorough" else h2[(i % 3) :: 3], "seed": seed})
    # bfloat16 parameters with full-precision communication and blocks of more than 16 elements (the gather slots
    # must be sized in the communication dtype)
    for (R, S) in [(2, 1), (2, 2), (3, 1)]:
        for comm, cp in itertools.product(["FP32", "BF16"], [False, True]):
            units.append({"kind": "hybrid", "pset": [[12], [6, 5], [4, 2]], "R": R, "S": S, "g": -1, "comm": comm, "cp": cp, "cfg_kw": dict(opt_cfgs()[1], pdtype="bf16", prec_dtype="f32", max_dim=8),
                          "hists": h2[:: (9 if tier == "quick" else 2)], "seed": seed})
    # parameters modified outside the optimizer between two steps (checkpoint load, clipping / projection): the next step
    # starts from the current values; and device meshes whose dimensions carry other names or none
    for (R, S) in [(2, 1), (2, 2)] + ([(3, 1), (1, 2)] if tier == "thorough" else []):
        for cp in (False, True):
            for comm in ("FP32", "BF16"):
                units.append({"kind": "hybrid", "pset": PSETS[0], "R": R, "S": S, "g": -1, "comm": comm, "cp": cp, "cfg_kw": opt_cfgs()[1], "hists": h2[:: (7 if tier == "quick" else 1)], "seed": seed, "perturb": True})
            for names in (["dp_replicate", "dp_shard"], None):
                units.append({"kind": "hybrid", "pset": PSETS[0], "R": R, "S": S, "g": -1, "comm": "FP32", "cp": cp, "cfg_kw": opt_cfgs()[0], "hists": h2[:: (21 if tier == "quick" else 5)], "seed": seed, "mesh_names": names})
    # mixed-precision parameter group (first parameter bfloat16, the others float32) with DEFAULT / FP32 communication: the
    # float32 shards must not be rounded by the communication
    for (R, S) in [(2, 1), (2, 2)]:
        for comm, cp in itertools.product(["DEFAULT", "FP32"], [False, True]):
            for pdt in (["bf16", "f32", "f32"], ["f32", "bf16", "f32"]):
                units.append({"kind": "hybrid", "pset": PSETS[0], "R": R, "S": S, "g": -1, "comm": comm, "cp": cp, "cfg_kw": opt_cfgs()[1], "hists": h2[:: (9 if tier == "quick" else 2)], "seed": seed, "pdtypes": pdt})
    for S in (2, 3):
        units.append({"kind": "fully", "pset": PSETS[0], "S": S, "cfg_kw": opt_cfgs()[1], "hists": h2[:: (7 if tier == "quick" else 1)], "seed": seed, "perturb": True})
        units.append({"kind": "fully", "pset": PSETS[0], "S": S, "cfg_kw": opt_cfgs()[0], "hists": h2[::21], "seed": seed, "mesh_names": None})
    core = [[[1, 1, 1], [1, 1, 1]], [[1, 1, 1], [1, 0, 1]], [[0, 0, 1], [1, 1, 0]], [[0, 1, 0], [0, 0, 0]]]
    bound = 1 if tier == "quick" else 2
    for (R, S, g) in [(2, 1, 2), (2, 2, 2), (2, 2, 1)]:
        for cp in (False, True):
            for h in core:
                units.append({"kind": "hybrid", "pset": PSETS[0], "R": R, "S": S, "g": g, "comm": "BF16" if cp else "FP32", "cp": cp, "cfg_kw": opt_cfgs()[1], "hists": [h], "seed": seed, "bound": bound})
    return units


def local_twin(unit, srank, hist):
    """serial optimizer on the non-empty local shards of shard rank `srank` (communicated quantity rounded for HybridShard)."""
    import torch

    S, seed = unit["S"], unit["seed"]
    shapes, idx = [], []
    for pi, shp in enumerate(unit["pset"]):
        a, b = rows_of(shp[0], S, srank)
        if b > a:
            shapes.append([b - a] + list(shp[1:]))
            idx.append((pi, a, b))
    cfg = seq.cfg_with(**dict(dict(shapes=shapes, max_dim=3, merge=True, seed=seed), **unit["cfg_kw"]))
    params = []
    for (pi, a, b), s in zip(idx, shapes):
        full = torch.tensor(seq.init_param(pi, tuple(unit["pset"][pi]), seed), dtype=PDT(unit, pi)).reshape(unit["pset"][pi])
        params.append(torch.nn.Parameter(full[a:b].clone()))
    _, opt = seq.build(cfg, params=params)
    if unit["kind"] == "hybrid":
        from distributed_shampoo.shampoo_types import DISTRIBUTOR

        cdt = common.dtype_of(distrun.COMM[unit["comm"]])
        cp = unit["cp"]
        for st in opt._per_group_state_lists:
            d = st[DISTRIBUTOR]

            def update_params(masked_blocked_search_directions, d=d):
                ps = d.local_masked_blocked_params
                if cp:
                    torch._foreach_add_(ps, masked_blocked_search_directions)
                    for p in ps:
                        p.copy_(p.to(cdt).to(p.dtype))
                else:
                    torch._foreach_add_(ps, [u.to(cdt).to(u.dtype) for u in masked_blocked_search_directions])

            d.update_params = update_params
    out = []
    for t, mask in enumerate(hist):
        if unit.get("perturb") and t >= 1:
            with torch.no_grad():
                for p in params:
                    p.mul_(0.5)
        for (pi, a, b), p in zip(idx, params):
            g = torch.tensor(seq.grad_value(pi, t, tuple(unit["pset"][pi]), seed), dtype=PDT(unit, pi)).reshape(unit["pset"][pi])
            p.grad = g[a:b].clone() if mask[pi] else None
        opt.step()
        loc = {pi: p.detach().clone() for (pi, _, _), p in zip(idx, params)}
        out.append(loc)
    return out


def program(unit, hist):
    def fn(rank, W):
        import torch
        from distributed_shampoo.distributed_shampoo import DistributedShampoo
        from distributed_shampoo.shampoo_types import FullyShardShampooConfig, HybridShardShampooConfig
        from torch.distributed.device_mesh import init_device_mesh
        from torch.distributed.tensor import DTensor, Replicate, Shard

        S, seed = unit["S"], unit["seed"]
        if unit["kind"] == "fully":
            mesh = init_device_mesh("cpu", (S,), mesh_dim_names=("shard",) if "mesh_names" not in unit else None)
            placements = [Shard(0)]
            srank = rank
            dc = FullyShardShampooConfig()
        else:
            names = unit.get("mesh_names", ["replicate", "shard"])
            mesh = init_device_mesh("cpu", (unit["R"], S), mesh_dim_names=tuple(names) if names else None)
            placements = [Replicate(), Shard(0)]
            srank = rank % S
            dc = HybridShardShampooConfig(device_mesh=mesh, communication_dtype=distrun.comm_enum(unit["comm"]), num_trainers_per_group=unit["g"], communicate_params=unit["cp"])

        def mk(full, shp):
            a, b = rows_of(shp[0], S, srank)
            local = full[a:b].clone()
            return DTensor.from_local(local, mesh, placements, run_check=False, shape=torch.Size(shp), stride=full.stride())

        params = []
        for pi, shp in enumerate(unit["pset"]):
            full = torch.tensor(seq.init_param(pi, tuple(shp), seed), dtype=PDT(unit, pi)).reshape(shp)
            params.append(torch.nn.Parameter(mk(full, shp)))
        cfg = seq.cfg_with(**dict(dict(shapes=[[1]], max_dim=3, merge=True, seed=seed), **unit["cfg_kw"]))
        opt = DistributedShampoo(params, distributed_config=dc, **seq.ctor_kwargs(cfg))
        out = []
        for t, mask in enumerate(hist):
            if unit.get("perturb") and t >= 1:
                with torch.no_grad():
                    for p in params:
                        p.to_local().mul_(0.5)
            for pi, (p, shp) in enumerate(zip(params, unit["pset"])):
                g = torch.tensor(seq.grad_value(pi, t, tuple(shp), seed), dtype=PDT(unit, pi)).reshape(shp)
                p.grad = mk(g, shp) if mask[pi] else None
            opt.step()
            out.append({pi: p.to_local().detach().clone() for pi, p in enumerate(params)})
        return {"steps": out, "srank": srank}

    return fn


def compare_local(got_steps, twin_steps, what):
    import torch

    for t, (g, w) in enumerate(zip(got_steps, twin_steps)):
        for pi, x in g.items():
            if x.numel() == 0:
                if pi in w:
                    return [f"{what}: twin has a shard for parameter {pi} but the rank's local shard is empty"]
                continue
            if pi not in w:
                return [f"{what}: parameter {pi} has a non-empty local shard unknown to the twin"]
            y = w[pi]
            if not torch.equal(x, y):
                scale = max(y.double().abs().max().item(), 1e-30)
                err = (x.double() - y.double()).abs().max().item() / scale if x.shape == y.shape else float("inf")
                u = 2.0 ** -53 if x.dtype == torch.float64 else (common.UNIT["bf16"] if x.dtype == torch.bfloat16 else common.UNIT["f32"])
                if not err <= 16 * u:
                    return [f"{what}: local shard of parameter {pi} differs from the serial optimizer on that local tensor after step {t} (rel diff {err:.2e})"]
    return []


def run_case(unit, hist, choices=(), bound=None):
    S = unit["S"]
    W = S if unit["kind"] == "fully" else unit["R"] * S
    fn = program(unit, hist)
    twins = {}
    what = (f"FullyShard S={S}" if unit["kind"] == "fully" else f"HybridShard mesh={unit['R']}x{S} trainers_per_group={unit['g']} comm={unit['comm']} communicate_params={unit['cp']}") + f" params={unit['pset']} hist={hist}" + (" [parameters halved in place between the steps]" if unit.get("perturb") else "") + (f" [mesh dimension names {unit['mesh_names']}]" if "mesh_names" in unit else "") + (f" [parameter dtypes {unit['pdtypes']}]" if unit.get("pdtypes") else "")

    def check(s):
        import torch

        msgs = []
        if s.deadlock is not None:
            msgs.append(f"{what}: DEADLOCK - ranks left waiting: {s.deadlock}")
        for r, e in enumerate(s.errors):
            if e:
                msgs.append(f"{what}: rank {r} raised {e.splitlines()[0][:200]}")
        msgs += [f"{what}: {m}" for m in sim.trace_oracles(s)[:2]]
        key = common.h64("fail", str(s.deadlock))
        if not msgs:
            for r in range(W):
                sr = r % S
                if sr not in twins:
                    twins[sr] = local_twin(unit, sr, hist)
                msgs += compare_local(s.results[r]["steps"], twins[sr], f"{what}: rank {r}")
                if r != sr:
                    for t, (a, b) in enumerate(zip(s.results[r]["steps"], s.results[sr]["steps"])):
                        if any(not torch.equal(a[k], b[k]) for k in a):
                            msgs.append(f"{what}: replicas differ: rank {r} vs rank {sr} after step {t}")
                            break
            key = common.h64([[common.digest_obj(list(x.values())) for x in s.results[r]["steps"]] for r in range(W)])
        return msgs, key

    if bound is None:
        s = sim.Sched(W).run(fn, choices)
        msgs, key = check(s)
        return msgs, {key}, 1, len(s.points), [p[1] for p in s.points] if msgs else []
    allmsgs, nexec, npts, bad = [], 0, 0, []

    def chk(s):
        nonlocal nexec, npts, bad
        msgs, key = check(s)
        nexec += 1
        npts += len(s.points)
        if msgs and not allmsgs:
            allmsgs.extend(msgs)
            bad = [p[1] for p in s.points]
        return key

    r = sim.explore(W, fn, bound, chk, max_execs=5000)
    if not r["complete"]:
        raise sim.HarnessError(f"{what}: schedule exploration capped at 5000 executions")
    if len(r["outcomes"]) > 1 and not allmsgs:
        allmsgs.append(f"{what}: {len(r['outcomes'])} different outcomes over the explored schedules")
    return allmsgs, set(r["outcomes"]), nexec, npts, bad


def run_unit(unit):
    res = {"evals": 0, "transitions": 0, "states": set(), "outcomes": set(), "nontrivial_count": 0, "violations": [], "samples": [], "stats": {"fully_runs": 0, "hybrid_runs": 0, "schedules_explored": 0, "runs_with_empty_shard": 0}}
    S = unit["S"]
    has_empty = any(rows_of(shp[0], S, s)[0] == rows_of(shp[0], S, s)[1] for shp in unit["pset"] for s in range(S))
    for hist in unit["hists"]:
        try:
            msgs, keys, nexec, npts, choices = run_case(unit, hist, bound=unit.get("bound"))
        except sim.HarnessError as e:
            return {"harness_error": str(e), "arg": json.dumps(unit)[:300]}
        res["evals"] += nexec
        res["transitions"] += npts
        res["states"].update(keys)
        res["outcomes"].update(keys)
        res["stats"]["fully_runs" if unit["kind"] == "fully" else "hybrid_runs"] += 1
        res["stats"]["schedules_explored"] += nexec if unit.get("bound") is not None else 0
        res["stats"]["runs_with_empty_shard"] += int(has_empty)
        if has_empty or any(0 in m for m in hist):
            res["nontrivial_count"] += nexec
        if msgs:
            res["violations"].append({"case": {"unit": {k: v for k, v in unit.items() if k != "hists"}, "hist": hist, "choices": choices}, "msg": msgs[0][:500], "kind": "deadlock" if "DEADLOCK" in msgs[0] else msgs[0].split(":")[-1][:25]})
            if len(res["violations"]) > 5:
                break
    res["samples"].append({k: v for k, v in unit.items() if k != "hists"} | {"history": unit["hists"][0]})
    res["states"] = list(res["states"])
    res["outcomes"] = list(res["outcomes"])
    return res


def replay(case):
    return run_case(case["unit"], case["hist"], choices=tuple(case.get("choices") or ()))[0]
