"""C07 - FSDP/HSDP Shampoo equals serial Shampoo on the shard's recovered tensor blocks.

ENUM + SIM.  FSDP (communication free): all small original shapes x ALL contiguous shard ranges [start,end) (superset of
any sharding) and all flat-parameter chunkings over 1..8 shard ranks (even chunks with padding, preceding-parameter
offsets, empty shards, mid-row boundaries) x optimizer configurations x mask histories with a second parameter.  Oracle:
the rank's shard after each step equals the serial optimizer run on the recovered sub-tensors (validated as a minimum
slab cover by C15's DP reference) as independent parameters; every element of a shard with a gradient changes.
HSDP: real HSDPDistributor on simulated (replicate x shard) meshes: replicas bit-identical along the replicate
dimension, equal to the FSDP-serial twin with the communicated quantity rounded, trace oracles, no deadlock, all
schedules up to a preemption bound on core histories.
"""
from __future__ import annotations

import itertools
import json
from math import prod

from .. import common, distrun, seq, sim
from . import c15

ID = "C07"
TECHNIQUE = "bounded-exhaustive enumeration of shapes x shard ranges / flat-parameter chunkings on the real FSDP distributor, and preemption-bounded exploration of rank interleavings of the real HSDP distributor on simulated meshes; differential against the serial optimizer on reference-validated recovered sub-tensors"
RULE = (
    "FSDP: shapes of order 1..4 (dims 1..4) with numel <= N (12 quick / 16 thorough): every 0<=start<=end<=numel; numel <= 24: every chunking into S in 1..8 ranks with offsets {0,1,5}; x 4 optimizer configs (rotating) x "
    "mask histories of depth 2 over 2 parameters. HSDP: meshes (replicate x shard) in {1x2,2x1,2x2,3x1[,2x3]} x num_trainers_per_group (divisors,-1) x comm dtype x communicate_params x optimizer configs x all mask "
    "histories depth 2 (canonical schedule) + all schedules with preemption bound B on core histories. state = (shape,range) resp. rank-state digest; non-trivial = shard recovered into >= 2 sub-tensors or mesh with >= 2 ranks"
)
ASSUMPTIONS = [
    "shard boundaries are modelled by FSDPParameterMetadata(shape, numel, start_idx, end_idx); the flat-parameter rule (even chunks of the concatenated, padded flat parameter) generates the chunkings",
    "conformance of the boundary model: real FSDP(use_orig_params=True) modules are wrapped on simulated ranks, compile_fsdp_parameter_metadata must describe the local shards exactly and cover every element once; transport model as in C06",
]
TRUSTED = ["mc.props.c15 (DP reference validates the recovered pieces)", "mc.sim", "serial optimizer as oracle"]
EXHAUSTIVE = True


def opt_cfgs():
    return [
        dict(precond=["shampoo", {}], graft=None, betas=[0.0, 1.0], lr=0.25, start=1),
        dict(precond=["shampoo", {}], graft=["adam", 0.5, 1e-1], betas=[0.5, 0.5], momentum=0.5, wd=0.5, lr=0.25, start=2),
        dict(precond=["soap", {}], graft=None, betas=[0.5, 0.5], lr=0.25, start=1),
        dict(precond=["shampoo", {}], graft=["sgd"], betas=[0.5, 1.0], bias_corr=False, momentum=0.5, nesterov=True, lr=0.25, start=2),
        # merging switched off: recovered sub-tensors keep their size-1 / small dimensions (a (1,3) piece is a 2-D block)
        dict(precond=["shampoo", {}], graft=["adam", 0.5, 1e-1], betas=[0.5, 0.5], lr=0.25, start=1, merge=False, max_dim=4),
    ]


def bounds(tier):
    return {"all_ranges_max_numel": 12 if tier == "quick" else 16, "chunkings_max_numel": 24, "max_shard_ranks": 8, "hsdp_preemption_bound": 1 if tier == "quick" else 2}


def shapes_upto(n, min_order=1, max_order=4):
    out = []
    for order in range(min_order, max_order + 1):
        for s in itertools.product(range(1, 5), repeat=order):
            if prod(s) <= n:
                out.append(list(s))
    return out


def chunk_ranges(numel, S, off):
    """local ranges of a parameter of `numel` elements placed at offset `off` of a flat parameter that is split into S even
    chunks (padded): the flat-parameter rule."""
    total = off + numel + 3  # a following parameter of 3 elements
    c = -(-total // S)
    out = []
    for r in range(S):
        a, b = max(0, r * c - off), min(numel, (r + 1) * c - off)
        out.append((a, b) if a < b else (0, 0))
    return out


def work(tier, seed):
    units = []
    N = 12 if tier == "quick" else 16
    small = shapes_upto(N)
    for ch in common.chunks(small, max(1, len(small) // 40)):
        units.append({"kind": "fsdp_ranges", "shapes": ch, "seed": seed})
    mid = [s for s in shapes_upto(24) if prod(s) > N]
    if tier == "quick":
        mid = mid[seed % 3 :: 3]
    for ch in common.chunks(mid, max(1, len(mid) // 24)):
        units.append({"kind": "fsdp_chunks", "shapes": ch, "seed": seed})
    for layers in REAL_MODELS:
        units.append({"kind": "real_fsdp", "layers": layers, "Ws": [2, 3] if tier == "quick" else [2, 3, 4, 5], "seed": seed})
    units += hsdp_units(tier, seed)
    return units


# ----------------------------------------------------------------------------- FSDP (one simulated rank, no communication)


def fsdp_case(torch, cfg_kw, shape, a, b, hist, seed):
    """FSDP optimizer on the flat shard [a,b) of a tensor of `shape` plus a full second parameter (3,), vs the serial twin
    on the recovered pieces.  Must be called inside a simulated rank (dist initialised)."""
    from distributed_shampoo.distributed_shampoo import DistributedShampoo
    from distributed_shampoo.shampoo_types import FSDPParameterMetadata, FSDPShampooConfig
    from distributed_shampoo.utils.shampoo_fsdp_distributor import FSDPDistributor
    from torch.distributed.fsdp import ShardingStrategy

    msgs = []
    shape = tuple(shape)
    n = prod(shape)
    cfg = seq.cfg_with(shapes=[[n], [3]], seed=seed, **{"max_dim": 3, "merge": True, **cfg_kw})
    full0 = torch.tensor(seq.init_param(0, (n,), seed), dtype=torch.float32)
    p0 = torch.nn.Parameter(full0[a:b].clone())
    p1 = torch.nn.Parameter(torch.tensor(seq.init_param(1, (3,), seed), dtype=torch.float32))
    meta = {
        p0: FSDPParameterMetadata(fqn="p0", shape=torch.Size(shape), numel=n, start_idx=a, end_idx=b, sharding_strategy=ShardingStrategy.FULL_SHARD),
        p1: FSDPParameterMetadata(fqn="p1", shape=torch.Size((3,)), numel=3, start_idx=0, end_idx=3, sharding_strategy=ShardingStrategy.FULL_SHARD),
    }
    kw = seq.ctor_kwargs(cfg)
    try:
        opt = DistributedShampoo([p0, p1], distributed_config=FSDPShampooConfig(param_to_metadata=meta), **kw)
    except Exception as e:
        return [f"constructor raised {type(e).__name__}: {str(e)[:120]}"], 0
    # recovered pieces, validated against the DP reference of C15
    probe = torch.arange(n, dtype=torch.float32)[a:b]
    pieces = FSDPDistributor._split_tensor_block_recovery(probe, torch.Size(shape), a, b)
    f, valid = c15.min_cover_table(shape)
    vm, _, _ = c15.check_case(torch, FSDPDistributor._split_tensor_block_recovery, shape, a, b, f, valid)
    if vm:
        return [f"recovered sub-tensors are not a minimum slab cover: {vm[0]}"], len(pieces)
    spans = []
    pos = a
    for t in pieces:
        spans.append((pos - a, pos - a + t.numel(), tuple(t.shape)))
        pos += t.numel()
    tparams = [torch.nn.Parameter(p0.detach()[x:y].reshape(s).clone()) for x, y, s in spans] + [torch.nn.Parameter(p1.detach().clone())]
    tw = DistributedShampoo(tparams, **kw)
    for t, mask in enumerate(hist):
        g0 = torch.tensor(seq.grad_value(0, t, (n,), seed), dtype=torch.float32)[a:b].clone()
        g1 = torch.tensor(seq.grad_value(1, t, (3,), seed), dtype=torch.float32)
        p0.grad = g0 if mask[0] else None
        p1.grad = g1.clone() if mask[1] else None
        for (x, y, s), tp in zip(spans, tparams):
            tp.grad = g0[x:y].reshape(s).clone() if mask[0] else None
        tparams[-1].grad = g1.clone() if mask[1] else None
        before = p0.detach().clone()
        try:
            opt.step()
        except Exception as e:
            return [f"step {t} mask {mask}: FSDP optimizer raised {type(e).__name__}: {str(e)[:120]}"], len(pieces)
        tw.step()
        got = p0.detach()
        want = torch.cat([tp.detach().reshape(-1) for tp in tparams[:-1]]) if spans else torch.zeros(0)
        if got.numel() and not torch.equal(got, want):
            scale = max(want.abs().max().item(), 1e-30)
            err = (got - want).abs().max().item() / scale
            if err > 16 * common.UNIT["f32"]:
                msgs.append(f"step {t} mask {mask}: shard differs from the serial optimizer on its recovered sub-tensors {[s for _, _, s in spans]} (rel diff {err:.2e})")
        if not torch.equal(p1.detach(), tparams[-1].detach()) and (p1.detach() - tparams[-1].detach()).abs().max().item() > 16 * common.UNIT["f32"] * max(p1.detach().abs().max().item(), 1e-30):
            msgs.append(f"step {t} mask {mask}: second parameter differs from the serial optimizer")
        if mask[0] and got.numel() and t == 0 and bool((got == before).any()):
            msgs.append(f"step {t}: {int((got == before).sum())} elements of the shard were not updated although every gradient entry is non-zero")
        if not mask[0] and not torch.equal(got, before):
            msgs.append(f"step {t}: shard changed without a gradient")
        if msgs:
            break
    if not msgs:
        # the optimizer state of the shard is the state of its recovered sub-tensors: same number of state tensors as the
        # serial optimizer holds for the pieces (a block id shared by two pieces would overwrite one of them)
        from .c09 import count_tensors

        n_fsdp = count_tensors({k: v for k, v in opt.state[p0].items() if k != "step"}) if p0 in opt.state else 0
        n_twin = sum(count_tensors({k: v for k, v in tw.state[tp].items() if k != "step"}) for tp in tparams[:-1] if tp in tw.state)
        if n_fsdp != n_twin:
            msgs.append(f"optimizer state of the shard holds {n_fsdp} tensors, the serial optimizer holds {n_twin} for the recovered sub-tensors {[s for _, _, s in spans]}")
    return msgs[:2], len(pieces)


def run_fsdp_unit(unit):
    import torch

    res = {"evals": 0, "transitions": 0, "states": set(), "outcomes": set(), "nontrivial_count": 0, "violations": [], "samples": [], "stats": {"max_pieces": 0, "empty_shards": 0, "fsdp_cases": 0}}
    cfgs = opt_cfgs()
    hists = [[[1, 1], [1, 1]], [[1, 1], [0, 1]], [[0, 1], [1, 0]], [[1, 0], [1, 1]]]
    seed = unit["seed"]

    def body(rank, W):
        k = 0
        for shape in unit["shapes"]:
            n = prod(shape)
            if unit["kind"] == "fsdp_ranges":
                ranges = [(a, b) for a in range(n + 1) for b in range(a, n + 1)]
            else:
                ranges = sorted({r for S in range(1, 9) for off in (0, 1, 5) for r in chunk_ranges(n, S, off)})
            for a, b in ranges:
                k += 1
                ckw = cfgs[(k + seed) % len(cfgs)]
                hist = hists[(k // len(cfgs) + seed) % len(hists)]
                msgs, npieces = fsdp_case(torch, ckw, shape, a, b, hist, seed)
                res["evals"] += 1
                res["transitions"] += len(hist)
                res["stats"]["fsdp_cases"] += 1
                res["stats"]["max_pieces"] = max(res["stats"]["max_pieces"], npieces)
                res["stats"]["empty_shards"] += int(a == b)
                res["states"].add(common.h64(tuple(shape), a, b))
                res["outcomes"].add(npieces)
                if npieces >= 2:
                    res["nontrivial_count"] += 1
                for m in msgs[:1]:
                    res["violations"].append({"case": {"kind": "fsdp", "shape": shape, "a": a, "b": b, "cfg_kw": ckw, "hist": hist, "seed": seed}, "msg": f"FSDP shape={shape} shard=[{a},{b}): {m}", "kind": m[:30]})
                if len(res["violations"]) > 10:
                    return
        return True

    s = sim.Sched(1).run(body)
    if s.errors[0]:
        return {"harness_error": s.errors[0], "arg": json.dumps(unit)[:200]}
    res["samples"].append({"kind": unit["kind"], "shape": unit["shapes"][0], "example_range": [1, prod(unit["shapes"][0])]})
    res["states"] = list(res["states"])
    res["outcomes"] = list(res["outcomes"])
    return res


# ----------------------------------------------------------------------------- real torch FSDP modules (metadata conformance)

REAL_MODELS = [
    [(2, 2, False), (2, 3, False)],           # 4 + 6 elements: with 2 ranks a shard ends one element into the 2nd parameter
    [(3, 2, True), (2, 1, True)],            # weights and biases, odd sizes
    [(1, 5, False), (5, 1, True), (1, 2, False)],
    [(4, 3, True)],
]


def real_fsdp_program(layers, cfg_kw, hist, seed):
    def fn(rank, W):
        import torch
        import torch.nn as nn
        from distributed_shampoo.distributed_shampoo import DistributedShampoo
        from distributed_shampoo.shampoo_types import FSDPShampooConfig
        from distributed_shampoo.utils.shampoo_fsdp_distributor import FSDPDistributor
        from distributed_shampoo.utils.shampoo_fsdp_utils import compile_fsdp_parameter_metadata
        from torch.distributed.fsdp import FullyShardedDataParallel as FSDP

        mods = [nn.Linear(i, o, bias=b) for (i, o, b) in layers]
        model = nn.Sequential(*mods)
        fulls = {}
        with torch.no_grad():
            for pi, (name, p) in enumerate(model.named_parameters()):
                v = torch.tensor(seq.init_param(pi, tuple(p.shape), seed), dtype=torch.float32).reshape(p.shape)
                p.copy_(v)
                fulls[name] = (pi, v.clone())
        fsdp = FSDP(model, use_orig_params=True, device_id=torch.device("cpu"))
        meta = compile_fsdp_parameter_metadata(fsdp)
        msgs = []
        info = {}
        params = list(meta.keys())
        for p, md in meta.items():
            info[md.fqn] = (md.start_idx, md.end_idx, int(md.numel), int(p.numel()), tuple(md.shape))
            if p.numel() != md.end_idx - md.start_idx:
                msgs.append(f"metadata of {md.fqn}: local shard has {p.numel()} elements but [start_idx, end_idx) = [{md.start_idx}, {md.end_idx})")
            pi, full = fulls[md.fqn]
            if tuple(md.shape) != tuple(full.shape) or md.numel != full.numel():
                msgs.append(f"metadata of {md.fqn}: shape {tuple(md.shape)} / numel {md.numel}, the parameter has {tuple(full.shape)}")
            elif p.numel() and not torch.equal(p.detach(), full.reshape(-1)[md.start_idx : md.end_idx]):
                msgs.append(f"metadata of {md.fqn}: [start_idx, end_idx) does not address the elements held by the local shard")
        if msgs:
            return {"msgs": msgs, "info": info}
        cfg = seq.cfg_with(shapes=[[1]], seed=seed, **{"max_dim": 3, "merge": True, **cfg_kw})
        kw = seq.ctor_kwargs(cfg)
        opt = DistributedShampoo(params, distributed_config=FSDPShampooConfig(param_to_metadata=meta), **kw)
        # serial twin on the recovered sub-tensors
        tparams, owner = [], []
        for p, md in meta.items():
            if p.numel() == 0:
                continue
            n = md.numel
            probe = torch.arange(n, dtype=torch.float32)[md.start_idx : md.end_idx]
            pos = 0
            for t in FSDPDistributor._split_tensor_block_recovery(probe, md.shape, md.start_idx, md.end_idx):
                tparams.append(torch.nn.Parameter(p.detach()[pos : pos + t.numel()].reshape(t.shape).clone()))
                owner.append((md.fqn, pos, pos + t.numel(), tuple(t.shape)))
                pos += t.numel()
        tw = DistributedShampoo(tparams, **kw)
        for t, mask in enumerate(hist):
            for p, md in meta.items():
                pi, full = fulls[md.fqn]
                g = torch.tensor(seq.grad_value(pi, t, tuple(full.shape), seed), dtype=torch.float32).reshape(-1)[md.start_idx : md.end_idx].clone()
                p.grad = g if mask[pi % len(mask)] else None
            for (fqn, x, y, shp), tp in zip(owner, tparams):
                pi, full = fulls[fqn]
                md = next(m for m in meta.values() if m.fqn == fqn)
                g = torch.tensor(seq.grad_value(pi, t, tuple(full.shape), seed), dtype=torch.float32).reshape(-1)[md.start_idx : md.end_idx]
                tp.grad = g[x:y].reshape(shp).clone() if mask[pi % len(mask)] else None
            opt.step()
            tw.step()
            for p, md in meta.items():
                if p.numel() == 0:
                    continue
                want = torch.cat([tp.detach().reshape(-1) for (fqn, _, _, _), tp in zip(owner, tparams) if fqn == md.fqn])
                if not torch.equal(p.detach(), want):
                    err = (p.detach() - want).abs().max().item() / max(want.abs().max().item(), 1e-30)
                    if err > 16 * common.UNIT["f32"]:
                        msgs.append(f"step {t} mask {mask}: shard of {md.fqn} differs from the serial optimizer on its recovered sub-tensors (rel diff {err:.2e})")
            if msgs:
                break
        return {"msgs": msgs, "info": info}

    return fn


def run_real_fsdp(unit):
    res = {"evals": 0, "transitions": 0, "states": set(), "outcomes": set(), "nontrivial_count": 0, "violations": [], "samples": [], "stats": {"real_fsdp_runs": 0}}
    hists = [[[1, 1], [1, 1]], [[1, 0], [1, 1]], [[0, 1], [1, 0]]]
    for W in unit["Ws"]:
        for hi, hist in enumerate(hists):
            ckw = opt_cfgs()[(hi + W) % 4]
            s = sim.Sched(W).run(real_fsdp_program(unit["layers"], ckw, hist, unit["seed"]))
            what = f"real FSDP(use_orig_params=True) layers={unit['layers']} world={W} hist={hist}"
            msgs = []
            if s.deadlock is not None:
                msgs.append(f"{what}: DEADLOCK {s.deadlock}")
            for r, e in enumerate(s.errors):
                if e:
                    msgs.append(f"{what}: rank {r} raised {e.splitlines()[0][:200]}")
            if not msgs:
                for r in range(W):
                    msgs += [f"{what}: rank {r}: {m}" for m in s.results[r]["msgs"][:1]]
                # across the shard ranks every element of every parameter is covered exactly once
                for fqn in s.results[0]["info"]:
                    numel = s.results[0]["info"][fqn][2]
                    spans = sorted((s.results[r]["info"][fqn][0], s.results[r]["info"][fqn][1]) for r in range(W) if s.results[r]["info"][fqn][1] > s.results[r]["info"][fqn][0])
                    pos = 0
                    for a, b in spans:
                        if a != pos:
                            msgs.append(f"{what}: metadata ranges of {fqn} over the ranks are {spans}: element {pos} is covered {'twice' if a < pos else 'by no rank'}")
                            break
                        pos = b
                    else:
                        if pos != numel:
                            msgs.append(f"{what}: metadata ranges of {fqn} over the ranks are {spans}: they end at {pos}, the parameter has {numel} elements")
            res["evals"] += 1
            res["transitions"] += len(s.points)
            res["stats"]["real_fsdp_runs"] += 1
            res["nontrivial_count"] += 1
            res["states"].add(common.h64(what))
            if msgs:
                res["violations"].append({"case": {"kind": "real_fsdp", "layers": unit["layers"], "Ws": [W], "seed": unit["seed"]}, "msg": msgs[0][:500], "kind": "real" + msgs[0].split(":")[-1][:20]})
    res["samples"].append({"kind": "real_fsdp", "layers": unit["layers"], "worlds": unit["Ws"]})
    res["states"] = list(res["states"])
    res["outcomes"] = []
    return res


# ----------------------------------------------------------------------------- HSDP (simulated mesh)

HSDP_SHAPES = [[4, 3], [5], [3]]  # original shapes; flat-parameter chunking over the shard dimension


def hsdp_layout(S):
    """per shard rank: list of (start,end) of every original parameter under the flat-parameter rule."""
    numels = [prod(s) for s in HSDP_SHAPES]
    total = sum(numels)
    c = -(-total // S)
    out = []
    for r in range(S):
        off, rr = 0, []
        for n in numels:
            a, b = max(0, r * c - off), min(n, (r + 1) * c - off)
            rr.append((a, b) if a < b else (0, 0))
            off += n
        out.append(rr)
    return out


def hsdp_units(tier, seed):
    units = []
    meshes = [(1, 2), (2, 1), (2, 2), (3, 1)] + ([(2, 3), (4, 1)] if tier == "thorough" else [])
    masks = seq.all_masks(3)
    h2 = [[list(a), list(b)] for a, b in itertools.product(masks, repeat=2)]
    i = 0
    for (R, S) in meshes:
        for g in [d for d in range(1, R + 1) if R % d == 0] + [-1]:
            for comm, cp, (oi, oc) in itertools.product(["FP32", "BF16"], [False, True], enumerate(opt_cfgs())):
                i += 1
                if tier == "quick" and (i + seed) % 6 != 0:
                    continue
                units.append({"kind": "hsdp", "R": R, "S": S, "g": g, "comm": comm, "cp": cp, "cfg_kw": oc, "hists": h2 if tier == "thorough" else h2[(i % 4) :: 4], "seed": seed})
    # always present (the rotation above samples in the quick tier): merging off, and FP16 communication
    for (R, S) in [(2, 2), (1, 3)] + ([(2, 3), (1, 2)] if tier == "thorough" else []):
        for cp in (False, True):
            units.append({"kind": "hsdp", "R": R, "S": S, "g": -1, "comm": "FP32", "cp": cp, "cfg_kw": opt_cfgs()[4], "hists": h2 if tier == "thorough" else h2[cp::8], "seed": seed})
            units.append({"kind": "hsdp", "R": R, "S": S, "g": -1, "comm": "FP16", "cp": cp, "cfg_kw": opt_cfgs()[1 + cp], "hists": h2 if tier == "thorough" else h2[cp::8], "seed": seed})
    core = [[[1, 1, 1], [1, 1, 1]], [[1, 1, 1], [1, 0, 1]], [[0, 0, 1], [1, 1, 0]]]
    bound = 1 if tier == "quick" else 2
    for (R, S, g) in [(2, 1, 2), (2, 2, 2), (2, 2, 1)]:
        for cp in (False, True):
            for h in core:
                units.append({"kind": "hsdp", "R": R, "S": S, "g": g, "comm": "BF16" if cp else "FP32", "cp": cp, "cfg_kw": opt_cfgs()[1], "hists": [h], "seed": seed, "bound": bound})
    return units


def hsdp_twin(cfg_kw, srank, S, hist, comm, cp, seed):
    """FSDP-serial twin for shard rank `srank`: serial optimizer (with rounding of the communicated quantity) on the recovered
    pieces of every parameter's local range.  Returns per-step list of flat local shards per original parameter."""
    import torch
    from distributed_shampoo.utils.shampoo_fsdp_distributor import FSDPDistributor

    lay = hsdp_layout(S)[srank]
    twin_shapes, owner = [], []
    for pi, ((a, b), shape) in enumerate(zip(lay, HSDP_SHAPES)):
        n = prod(shape)
        if a == b:
            continue
        probe = torch.arange(n, dtype=torch.float32)[a:b]
        pos = a
        for t in FSDPDistributor._split_tensor_block_recovery(probe, torch.Size(shape), a, b):
            twin_shapes.append(list(t.shape))
            owner.append((pi, pos, pos + t.numel()))
            pos += t.numel()
    cfg = seq.cfg_with(shapes=twin_shapes, seed=seed, **{"max_dim": 3, "merge": True, **cfg_kw})
    params = []
    for (pi, x, y), s in zip(owner, twin_shapes):
        full = torch.tensor(seq.init_param(pi, (prod(HSDP_SHAPES[pi]),), seed), dtype=torch.float32)
        params.append(torch.nn.Parameter(full[x:y].reshape(s).clone()))
    from distributed_shampoo.shampoo_types import DISTRIBUTOR

    _, opt = seq.build(cfg, params=params)
    cdt = common.dtype_of(distrun.COMM[comm])
    for st in opt._per_group_state_lists:
        d = st[DISTRIBUTOR]

        def update_params(masked_blocked_search_directions, d=d):
            ps = d.local_masked_blocked_params
            if cp:
                torch._foreach_add_(ps, masked_blocked_search_directions)
                for p in ps:
                    p.copy_(p.to(cdt).to(p.dtype))
            else:
                torch._foreach_add_(ps, [u.to(cdt).to(u.dtype) for u in masked_blocked_search_directions])

        d.update_params = update_params
    out = []
    for t, mask in enumerate(hist):
        for (pi, x, y), s, p in zip(owner, twin_shapes, params):
            g = torch.tensor(seq.grad_value(pi, t, (prod(HSDP_SHAPES[pi]),), seed), dtype=torch.float32)
            p.grad = g[x:y].reshape(s).clone() if mask[pi] else None
        opt.step()
        shards = []
        for pi in range(len(HSDP_SHAPES)):
            parts = [p.detach().reshape(-1) for (o, _, _), p in zip(owner, params) if o == pi]
            shards.append(torch.cat(parts) if parts else torch.zeros(0))
        out.append(shards)
    return out


def hsdp_program(cfg_kw, R, S, g, comm, cp, hist, seed):
    def fn(rank, W):
        import torch
        from distributed_shampoo.distributed_shampoo import DistributedShampoo
        from distributed_shampoo.shampoo_types import FSDPParameterMetadata, HSDPShampooConfig
        from torch.distributed.device_mesh import init_device_mesh
        from torch.distributed.fsdp import ShardingStrategy

        mesh = init_device_mesh("cpu", (R, S), mesh_dim_names=("replicate", "shard"))
        srank = rank % S
        lay = hsdp_layout(S)[srank]
        params, meta = [], {}
        for pi, ((a, b), shape) in enumerate(zip(lay, HSDP_SHAPES)):
            n = prod(shape)
            full = torch.tensor(seq.init_param(pi, (n,), seed), dtype=torch.float32)
            p = torch.nn.Parameter(full[a:b].clone())
            params.append(p)
            meta[p] = FSDPParameterMetadata(fqn=f"p{pi}", shape=torch.Size(shape), numel=n, start_idx=a, end_idx=b, sharding_strategy=ShardingStrategy.HYBRID_SHARD)
        cfg = seq.cfg_with(shapes=[[1]], seed=seed, **{"max_dim": 3, "merge": True, **cfg_kw})
        dc = HSDPShampooConfig(param_to_metadata=meta, device_mesh=mesh, communication_dtype=distrun.comm_enum(comm), num_trainers_per_group=g, communicate_params=cp)
        opt = DistributedShampoo(params, distributed_config=dc, **seq.ctor_kwargs(cfg))
        out = []
        for t, mask in enumerate(hist):
            for pi, (p, (a, b)) in enumerate(zip(params, lay)):
                gfull = torch.tensor(seq.grad_value(pi, t, (prod(HSDP_SHAPES[pi]),), seed), dtype=torch.float32)
                p.grad = gfull[a:b].clone() if mask[pi] else None
            opt.step()
            out.append([p.detach().clone() for p in params])
        return {"steps": out, "srank": srank}

    return fn


def run_hsdp_case(unit, hist, choices=(), bound=None):
    R, S, g, comm, cp, seed = unit["R"], unit["S"], unit["g"], unit["comm"], unit["cp"], unit["seed"]
    W = R * S
    fn = hsdp_program(unit["cfg_kw"], R, S, g, comm, cp, hist, seed)
    twins = {}
    what = f"HSDP mesh={R}x{S} trainers_per_group={g} comm={comm} communicate_params={cp} hist={hist}"

    def check(s):
        msgs = []
        if s.deadlock is not None:
            msgs.append(f"{what}: DEADLOCK - ranks left waiting: {s.deadlock}")
        for r, e in enumerate(s.errors):
            if e:
                msgs.append(f"{what}: rank {r} raised {e.splitlines()[0][:200]}")
        msgs += [f"{what}: {m}" for m in sim.trace_oracles(s)[:2]]
        key = common.h64("fail", str(s.deadlock))
        if not msgs:
            for r in range(W):
                sr = r % S
                if sr not in twins:
                    twins[sr] = hsdp_twin(unit["cfg_kw"], sr, S, hist, comm, cp, seed)
                msgs += distrun.compare_steps(s.results[r]["steps"], s.results[sr]["steps"], f"{what}: rank {r} vs rank {sr} (replicas along the replicate dimension must be bit-identical)")
                msgs += distrun.compare_steps(s.results[r]["steps"], twins[sr], f"{what}: rank {r} vs serial optimizer on the recovered sub-tensors of shard rank {sr}", ulps=16, u=common.UNIT["f32"])
            key = common.h64([common.digest_obj(x) for r in range(W) for x in s.results[r]["steps"]])
        return msgs, key

    if bound is None:
        s = sim.Sched(W).run(fn, choices)
        msgs, key = check(s)
        return msgs, {key}, 1, len(s.points), [p[1] for p in s.points] if msgs else []
    allmsgs, nexec, npts, bad = [], 0, 0, []

    def chk(s):
        nonlocal nexec, npts, bad
        msgs, key = check(s)
        nexec += 1
        npts += len(s.points)
        if msgs and not allmsgs:
            allmsgs.extend(msgs)
            bad = [p[1] for p in s.points]
        return key

    r = sim.explore(W, fn, bound, chk, max_execs=5000)
    if len(r["outcomes"]) > 1 and not allmsgs:
        allmsgs.append(f"{what}: {len(r['outcomes'])} different outcomes over the explored schedules")
    if not r["complete"]:
        raise sim.HarnessError(f"{what}: schedule exploration capped at 5000 executions")
    return allmsgs, set(r["outcomes"]), nexec, npts, bad


def run_unit(unit):
    if unit["kind"] == "real_fsdp":
        return run_real_fsdp(unit)
    if unit["kind"].startswith("fsdp"):
        return run_fsdp_unit(unit)
    res = {"evals": 0, "transitions": 0, "states": set(), "outcomes": set(), "nontrivial_count": 0, "violations": [], "samples": [], "stats": {"hsdp_runs": 0, "hsdp_schedules": 0}}
    for hist in unit["hists"]:
        try:
            msgs, keys, nexec, npts, choices = run_hsdp_case(unit, hist, bound=unit.get("bound"))
        except sim.HarnessError as e:
            return {"harness_error": str(e), "arg": json.dumps(unit)[:300]}
        res["evals"] += nexec
        res["transitions"] += npts
        res["states"].update(keys)
        res["outcomes"].update(keys)
        res["stats"]["hsdp_runs"] += 1
        res["stats"]["hsdp_schedules"] += nexec if unit.get("bound") is not None else 0
        if unit["R"] * unit["S"] >= 2:
            res["nontrivial_count"] += nexec
        if msgs:
            res["violations"].append({"case": {"kind": "hsdp", "unit": {k: v for k, v in unit.items() if k != "hists"}, "hist": hist, "choices": choices}, "msg": msgs[0][:500], "kind": "deadlock" if "DEADLOCK" in msgs[0] else msgs[0].split(":")[-1][:25]})
            if len(res["violations"]) > 5:
                break
    res["samples"].append({"mesh": [unit["R"], unit["S"]], "trainers_per_group": unit["g"], "comm": unit["comm"], "history": unit["hists"][0]})
    res["states"] = list(res["states"])
    res["outcomes"] = list(res["outcomes"])
    return res


def replay(case):
    import torch

    if case["kind"] == "real_fsdp":
        r = run_real_fsdp(case)
        return [v["msg"] for v in r.get("violations", [])] if "harness_error" not in r else [r["harness_error"]]
    if case["kind"] == "fsdp":
        out = []

        def body(rank, W):
            out.extend(fsdp_case(torch, case["cfg_kw"], case["shape"], case["a"], case["b"], case["hist"], case["seed"])[0])

        s = sim.Sched(1).run(body)
        return out + ([s.errors[0]] if s.errors[0] else [])
    return run_hsdp_case(case["unit"], case["hist"], choices=tuple(case.get("choices") or ()))[0]
