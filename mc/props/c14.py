"""C14 - block-to-rank assignment: deterministic balanced partition, disjoint buffers, state on the owner only.

ENUM part: all sequences of block byte sizes over an alphabet (ties, alignment edges) up to a length bound x group sizes
1..16 x the three copies of _distribute_buffer_sizes / _split_local_dist_buffers against greedy-validity, brute-force
optimum (4/3 bound), load-gap, alignment and buffer-geometry oracles.  SIM part: real DDP / HSDP / HybridShard
distributors on simulated ranks: buffer views inside the owner's segment, large enough for the block in the
communication dtype, pairwise disjoint; optimizer state present on exactly one rank of each group.
"""
from __future__ import annotations

import itertools
import json
from types import SimpleNamespace

from .. import common

ID = "C14"
TECHNIQUE = "bounded-exhaustive enumeration of block-size sequences x group sizes on the three copies of the assignment/buffer routines (greedy-validity, brute-force optimum, geometry oracles) + exploration of real distributors on simulated ranks"
RULE = (
    "all sequences of <= L block sizes (L = 5 quick, 7 thorough [6 for group sizes > 8]) over {4,60,64,68,128,192,260,1024} bytes x group sizes 1..16 x 3 code copies (DDP, HSDP, HybridShard); buffer geometry for all "
    "sequences of <= 4 (5) blocks; real distributors: DDP W<=4 all divisor group sizes, HSDP/HybridShard meshes 2x2, 3x1, 1x2 x communication dtypes x communicate_params. "
    "state = (sequence, group size); non-trivial = sequence with a tie or an unaligned size and >= 2 ranks"
)
ASSUMPTIONS = ["private methods _distribute_buffer_sizes/_split_local_dist_buffers/_construct_distributed_buffers are the anchors of the property", "OPT by brute force over set partitions (<= 7 blocks)"]
TRUSTED = ["brute-force optimum over set partitions", "torch storage_offset()/untyped_storage()"]
EXHAUSTIVE = True
ALPHABET = [4, 60, 64, 68, 128, 192, 260, 1024]
ALIGN = 64


def bounds(tier):
    return {"max_blocks": 5 if tier == "quick" else 7, "group_sizes": "1..16" if tier == "thorough" else "1..8,16", "geometry_max_blocks": 4 if tier == "quick" else 5}


def copies():
    from distributed_shampoo.utils.shampoo_ddp_distributor import DDPDistributor
    from distributed_shampoo.utils.shampoo_hsdp_distributor import HSDPDistributor
    from distributed_shampoo.utils.shampoo_hybrid_shard_distributor import HybridShardDistributor

    return {"ddp": DDPDistributor, "hsdp": HSDPDistributor, "hybrid": HybridShardDistributor}


def work(tier, seed):
    L = 5 if tier == "quick" else 7
    groups = [1, 2, 3, 4, 5, 6, 7, 8, 16] if tier == "quick" else list(range(1, 17))
    units = []
    # split by the first two sizes of the sequence
    for pre in itertools.product(ALPHABET, repeat=2):
        units.append({"part": "assign", "prefix": list(pre), "L": L, "groups": groups})
    units.append({"part": "assign_short", "groups": groups})
    units.append({"part": "geometry", "L": 4 if tier == "quick" else 5, "groups": [g for g in groups if g <= 8]})
    units += sim_units(tier, seed)
    return units


def sim_units(tier, seed):
    try:
        from . import c14_sim

        return c14_sim.units(tier, seed)
    except ImportError:
        return []


# ----------------------------------------------------------------------------- oracles

_opt_cache = {}


def partitions(items):
    """all set partitions of a list (as lists of blocks)."""
    if not items:
        yield []
        return
    first, rest = items[0], items[1:]
    for p in partitions(rest):
        for i in range(len(p)):
            yield p[:i] + [[first] + p[i]] + p[i + 1 :]
        yield [[first]] + p


def opt_makespan(sizes, m):
    key = (tuple(sorted(sizes)), m)
    if key not in _opt_cache:
        best = float("inf")
        for p in partitions(list(key[0])):
            if len(p) <= m:
                best = min(best, max(sum(b) for b in p))
        _opt_cache[key] = best if sizes else 0
    return _opt_cache[key]


def check_assignment(res, sizes, g):
    msgs = []
    n = len(sizes)
    if len(res) != n:
        return [f"{len(res)} entries returned for {n} blocks"]
    aligned = [(s + ALIGN - 1) // ALIGN * ALIGN for s in sizes]
    for i, (sz, r) in enumerate(res):
        if sz != aligned[i]:
            msgs.append(f"block {i}: returned size {sz}, expected {aligned[i]} (size {sizes[i]} aligned to 64 bytes)")
        if not (isinstance(r, int) and 0 <= r < g):
            msgs.append(f"block {i}: rank {r} outside 0..{g - 1}")
    if msgs:
        return msgs
    # greedy validity: stable descending order, each block to a least-loaded rank at that moment
    order = sorted(range(n), key=lambda i: -aligned[i])  # stable
    loads = [0] * g
    for i in order:
        r = res[i][1]
        if loads[r] != min(loads):
            msgs.append(f"block {i} (size {aligned[i]}) assigned to rank {r} with load {loads[r]} although the least loaded rank has {min(loads)} (largest-first greedy violated)")
            break
        loads[r] += aligned[i]
    final = [0] * g
    for i in range(n):
        final[res[i][1]] += aligned[i]
    if n:
        opt = opt_makespan(aligned, g) if n <= 7 else None
        if opt is not None and max(final) * 3 > 4 * opt:
            msgs.append(f"max load {max(final)} exceeds 4/3 of the optimum {opt}")
        if max(final) - min(final) > max(aligned):
            msgs.append(f"loads {final} differ by more than the largest block {max(aligned)}")
    return msgs


def call_assign(cls, sizes, g):
    # the group size is what the assignment depends on; the other size attributes of the real distributors are present with
    # different values, so that code reading the wrong one yields a wrong assignment instead of an AttributeError here
    fake = SimpleNamespace(_group_size=g, _dist_group_size=g, _global_size=2 * g + 1, _replicated_group_size=2 * g + 1, _group_rank=0, _global_rank=0)
    return tuple(cls._distribute_buffer_sizes(fake, tuple(sizes)))


def check_sequence(cps, sizes, g):
    out = []
    results = {}
    for name, cls in cps.items():
        try:
            r1 = call_assign(cls, sizes, g)
            r2 = call_assign(cls, sizes, g)
        except Exception as e:
            out.append((name, f"raised {type(e).__name__}: {str(e)[:80]}"))
            continue
        results[name] = r1
        if r1 != r2:
            out.append((name, "two calls with the same sizes give different assignments"))
        for m in check_assignment(r1, sizes, g)[:2]:
            out.append((name, m))
    if len(set(results.values())) > 1:
        out.append(("all", f"the three copies disagree: {results}"))
    return out, results.get("ddp")


def check_geometry(torch, cps, sizes, g):
    out = []
    aligned = [(s + ALIGN - 1) // ALIGN * ALIGN for s in sizes]
    for name, cls in cps.items():
        try:
            bsr = call_assign(cls, sizes, g)
        except Exception as e:
            out.append((name, f"_distribute_buffer_sizes raised {type(e).__name__}: {str(e)[:80]}"))
            continue
        loads = [sum(s for s, r in bsr if r == i) for i in range(g)]
        mx = max(loads) if loads else 0
        buf = torch.zeros(mx * g, dtype=torch.int8)
        local = torch.split(buf, mx) if mx > 0 else tuple(buf for _ in range(g))
        try:
            views = cls._split_local_dist_buffers(bsr, local)
        except Exception as e:
            out.append((name, f"_split_local_dist_buffers raised {type(e).__name__}: {str(e)[:80]}"))
            continue
        if len(views) != len(sizes):
            out.append((name, f"{len(views)} views for {len(sizes)} blocks"))
            continue
        spans = []
        for i, (v, (sz, r)) in enumerate(zip(views, bsr)):
            if v.untyped_storage().data_ptr() != buf.untyped_storage().data_ptr():
                out.append((name, f"view {i} is not a view of the gather buffer"))
                continue
            a, b = v.storage_offset(), v.storage_offset() + v.numel()
            if v.numel() != aligned[i]:
                out.append((name, f"view {i} has {v.numel()} bytes, expected the aligned size {aligned[i]}"))
            if v.numel() < sizes[i]:
                out.append((name, f"view {i} ({v.numel()} bytes) is smaller than the block ({sizes[i]} bytes)"))
            if not (r * mx <= a and b <= (r + 1) * mx):
                out.append((name, f"view {i} [{a},{b}) is outside its owner's segment [{r * mx},{(r + 1) * mx}) of the gather buffer"))
            spans.append((a, b, i))
        spans.sort()
        for (a1, b1, i1), (a2, b2, i2) in zip(spans, spans[1:]):
            if a2 < b1:
                out.append((name, f"views {i1} and {i2} overlap: [{a1},{b1}) and [{a2},{b2})"))
                break
    return out


def run_unit(unit):
    import torch

    res = {"evals": 0, "transitions": 0, "states": set(), "outcomes": set(), "nontrivial_count": 0, "violations": [], "samples": [], "stats": {"max_ratio_to_opt_x1000": 0, "strictly_suboptimal": 0, "geometry_cases": 0}}
    part = unit["part"]
    if part.startswith("sim"):
        from . import c14_sim

        return c14_sim.run_unit(unit)
    cps = copies()

    def seqs():
        if part == "assign":
            for L in range(2, unit["L"] + 1):
                for rest in itertools.product(ALPHABET, repeat=L - 2):
                    yield unit["prefix"] + list(rest)
        elif part == "assign_short":
            yield []
            for a in ALPHABET:
                yield [a]
            # very large blocks (no allocation happens in the assignment): per-rank byte totals beyond 2^31 and 2^32
            G = 2 ** 30
            for seqn in ([G] * 6, [G, 3 * G, 2 * G, G, G + 4, 2 * G], [3 * G] * 5 + [64], [G + 60] * 7):
                yield list(seqn)
        else:
            for L in range(1, unit["L"] + 1):
                yield from (list(s) for s in itertools.product(ALPHABET, repeat=L))

    for sizes in seqs():
        for g in unit["groups"]:
            if part == "geometry":
                bad = check_geometry(torch, cps, sizes, g)
                res["stats"]["geometry_cases"] += 1
            else:
                if len(sizes) > 6 and g > 8:
                    continue
                bad, r = check_sequence(cps, sizes, g)
                if r and len(sizes) <= 7 and g >= 2:
                    al = [s for s, _ in r]
                    loads = [sum(s for s, rr in r if rr == i) for i in range(g)]
                    opt = opt_makespan(al, g)
                    if opt:
                        res["stats"]["max_ratio_to_opt_x1000"] = max(res["stats"]["max_ratio_to_opt_x1000"], int(1000 * max(loads) / opt))
                        res["stats"]["strictly_suboptimal"] += int(max(loads) > opt)
            res["evals"] += 1
            res["transitions"] += len(cps)
            res["states"].add(common.h64(part, tuple(sizes), g))
            if g >= 2 and (len(set(sizes)) < len(sizes) or any(s % ALIGN for s in sizes)):
                res["nontrivial_count"] += 1
            for name, m in bad[:2]:
                res["violations"].append({"case": {"part": part, "sizes": sizes, "g": g}, "msg": f"{name}: sizes={sizes} group_size={g}: {m}", "kind": name + m[:25]})
        if len(res["violations"]) > 30:
            break
    res["samples"].append({"part": part, "sizes": [68, 64, 192, 128, 64], "group_size": 2})
    res["violations"] = res["violations"][:30]
    res["states"] = list(res["states"])
    res["outcomes"] = [common.h64(len(res["violations"]))]
    return res


def replay(case):
    import torch

    if case["part"].startswith("sim"):
        from . import c14_sim

        return c14_sim.replay(case)
    cps = copies()
    if case["part"] == "geometry":
        return [f"{n}: {m}" for n, m in check_geometry(torch, cps, case["sizes"], case["g"])]
    return [f"{n}: {m}" for n, m in check_sequence(cps, case["sizes"], case["g"])[0]]
