"""SIM engine: N simulated ranks in one process running the REAL torch.distributed front end (init_process_group,
new_group/new_subgroups, DeviceMesh, DTensor) and the REAL distributors, on top of torch's threaded process group
whose two blocking primitives (Collective.join - the rendezvous of a collective - and the store based barrier of
process-group creation) are rerouted to a cooperative scheduler owned by the harness.

Exactly one rank thread holds the baton.  A rank runs until its next *visible operation* (arrival at a collective, a
process-group creation barrier, or termination) and hands the baton back; a collective completes when its last member
arrives; a rank is enabled iff it is not waiting on an incomplete rendezvous.  "No enabled rank and some rank
unfinished" is a deadlock and is reported with every rank's pending operation.

The explorer is a stateless DFS over choice sequences with a preemption bound (switching away from a rank that is
still enabled costs 1), exactly as in CHESS-style iterative context bounding.
"""
from __future__ import annotations

import threading
import traceback

_TL = threading.local()
_INSTALLED = False
CURRENT = None  # the Sched of the execution in progress


class SimAbort(BaseException):
    pass


class HarnessError(Exception):
    pass


# ----------------------------------------------------------------------------- installation of the seams


def install():
    """Idempotent.  Installs the threaded process group world and reroutes its blocking primitives."""
    global _INSTALLED
    if _INSTALLED:
        return
    import torch
    import torch.distributed as dist
    import torch.distributed.distributed_c10d as c10d
    from torch.testing._internal.distributed import multi_threaded_pg as mt

    torch._C._distributed_c10d._set_thread_isolation_mode(True)
    mt._install_threaded_pg()

    def join(self, rank, data):
        s = CURRENT
        if s is None:
            raise HarnessError("collective outside a simulated execution")
        me = _TL.rank
        pg_name = getattr(self, "_sim_name", "?")
        self._data[rank] = data
        self._count += 1
        members = s.group_members.get((me, pg_name))
        s.record(me, ("collective", type(self._collective).__name__, pg_name, tuple(members) if members else None, _numel(data)))
        arrived = s.arrivals.setdefault(id(self), [])
        arrived.append(me)
        if self._count > self._world_size:
            s.anomaly(f"collective on group '{pg_name}' joined by {self._count} ranks but the group has size {self._world_size}")
        if self._count == self._world_size and not self._done:
            self._collective.work(self._data)
            self._done = True
        coll = self
        s.yield_(me, lambda: coll._done, f"{type(self._collective).__name__} on group '{pg_name}' members={members} (arrived: {arrived}, need {self._world_size})")
        return mt.ret_work(data)

    mt.Collective.join = join

    orig_start = mt.ProcessLocalGroup._start_coll.__func__

    def _start_coll(cls, collective, pg):
        c = orig_start(cls, collective, pg)
        c._sim_name = pg.pg_name
        return c

    mt.ProcessLocalGroup._start_coll = classmethod(_start_coll)

    def barrier(rank, store, group_name, rendezvous_count, timeout, logging_interval=None):
        s = CURRENT
        if s is None:
            raise HarnessError("store barrier outside a simulated execution")
        me = _TL.rank
        key = f"store_based_barrier_key:{group_name}"
        store.add(key, 1)
        s.record(me, ("barrier", group_name, rendezvous_count))
        s.yield_(me, lambda: int(store.add(key, 0)) >= rendezvous_count, f"process-group creation barrier (need {rendezvous_count} arrivals)")

    mt._store_based_barrier = barrier
    c10d._store_based_barrier = barrier

    orig_new_group = c10d.new_group

    def new_group(ranks=None, *a, **kw):
        s = CURRENT
        me = getattr(_TL, "rank", None)
        r = tuple(ranks) if ranks is not None else None
        pg = orig_new_group(ranks, *a, **kw)
        if s is not None and me is not None:
            s.record(me, ("new_group", r))
            s.creations[me].append(r)
            try:
                name = pg.group_name if pg is not None and pg != c10d.GroupMember.NON_GROUP_MEMBER else None
            except Exception:
                name = None
            if name is not None:
                s.group_members[(me, name)] = r if r is not None else tuple(range(s.W))
                prev = s.name_to_members.setdefault(name, s.group_members[(me, name)])
                if prev != s.group_members[(me, name)]:
                    s.anomaly(f"process-group name collision: name '{name}' denotes {prev} on one rank and {s.group_members[(me, name)]} on rank {me}")
        return pg

    c10d.new_group = new_group
    dist.new_group = new_group
    import torch.distributed.device_mesh as dm

    dm.new_group = new_group

    # per-rank cache for get_device_mesh (in reality every rank is a process; functools.cache is process-wide)
    import distributed_shampoo.utils.shampoo_dist_utils as du
    from torch.distributed.device_mesh import DeviceMesh

    def get_device_mesh(device_type, mesh, mesh_dim_names=None):
        cache = _TL.__dict__.setdefault("mesh_cache", {})
        key = (device_type, mesh, mesh_dim_names)
        if key not in cache:
            cache[key] = DeviceMesh(device_type=device_type, mesh=mesh, mesh_dim_names=mesh_dim_names)
        return cache[key]

    du.get_device_mesh = get_device_mesh
    import importlib

    for m in ("shampoo_ddp_distributor", "shampoo_hsdp_distributor", "shampoo_hybrid_shard_distributor"):
        mod = importlib.import_module(f"distributed_shampoo.utils.{m}")
        if hasattr(mod, "get_device_mesh"):
            mod.get_device_mesh = get_device_mesh
    _INSTALLED = True


def _numel(data):
    try:
        out, inp = data
        return int(sum(t.numel() for t in inp))
    except Exception:
        return -1


# ----------------------------------------------------------------------------- scheduler


class Sched:
    def __init__(self, W):
        self.W = W
        self.sems = [threading.Semaphore(0) for _ in range(W)]
        self.main = threading.Semaphore(0)
        self.cond = [None] * W
        self.desc = ["not started"] * W
        self.done = [False] * W
        self.trace = [[] for _ in range(W)]
        self.creations = [[] for _ in range(W)]
        self.group_members = {}
        self.name_to_members = {}
        self.arrivals = {}
        self.anomalies = []
        self.results = [None] * W
        self.errors = [None] * W
        self.abort = False
        self.points = []  # (enabled list in canonical order, chosen index, running_still_enabled)
        self.deadlock = None

    def record(self, r, ev):
        self.trace[r].append(ev)

    def anomaly(self, msg):
        if msg not in self.anomalies:
            self.anomalies.append(msg)

    def yield_(self, r, cond, desc):
        self.cond[r] = cond
        self.desc[r] = desc
        self.main.release()
        self.sems[r].acquire()
        if self.abort:
            raise SimAbort()

    def _body(self, r, fn):
        import torch.distributed as dist
        from torch.testing._internal.distributed import multi_threaded_pg as mt

        self.sems[r].acquire()
        _TL.rank = r
        _TL.mesh_cache = {}
        try:
            if self.abort:
                raise SimAbort()
            dist.init_process_group(backend="threaded", rank=r, world_size=self.W, store=self.store)
            self.group_members[(r, dist.distributed_c10d._get_default_group().group_name)] = tuple(range(self.W))
            self.results[r] = fn(r, self.W)
        except SimAbort:
            pass
        except BaseException as e:  # noqa
            self.errors[r] = f"{type(e).__name__}: {str(e)[:300]}\n{traceback.format_exc()[-1200:]}"
        finally:
            try:
                if dist.is_initialized():
                    dist.destroy_process_group()
            except BaseException:
                pass
            self.done[r] = True
            self.desc[r] = "finished"
            self.main.release()

    def run(self, fn, choices=()):
        """Run fn(rank, W) on every rank under the schedule given by `choices` (prefix; afterwards choice 0 = keep running
        the current rank / lowest id).  Returns self."""
        global CURRENT
        import torch.distributed as dist
        from torch.testing._internal.distributed import multi_threaded_pg as mt

        install()
        mt.ProcessLocalGroup.reset()
        self.store = dist.HashStore()
        CURRENT = self
        threads = [threading.Thread(target=self._body, args=(r, fn), daemon=True) for r in range(self.W)]
        for t in threads:
            t.start()
        current = None
        ci = 0
        try:
            while True:
                enabled = [r for r in range(self.W) if not self.done[r] and (self.cond[r] is None or self._check(r))]
                if not enabled:
                    if all(self.done):
                        break
                    self.deadlock = {r: self.desc[r] for r in range(self.W) if not self.done[r]}
                    break
                running_enabled = current in enabled
                order = ([current] if running_enabled else []) + [r for r in enabled if r != current]
                if ci < len(choices):
                    k = choices[ci]
                    if k >= len(order):
                        raise HarnessError(f"replay divergence: choice {k} at point {ci} but only {len(order)} enabled ranks")
                else:
                    k = 0
                ci += 1
                self.points.append((order, k, running_enabled))
                r = order[k]
                current = r
                self.cond[r] = None
                self.sems[r].release()
                if not self.main.acquire(timeout=120):
                    raise HarnessError(f"rank {r} did not reach a visible operation within 120 s (blocked outside the scheduler?) desc={self.desc}")
        finally:
            self.abort = True
            for r in range(self.W):
                if not self.done[r]:
                    self.sems[r].release()
            for t in threads:
                t.join(timeout=20)
            CURRENT = None
            if any(t.is_alive() for t in threads):
                raise HarnessError("rank thread did not terminate")
        return self

    def _check(self, r):
        try:
            return bool(self.cond[r]())
        except Exception:
            return False


# ----------------------------------------------------------------------------- explorer


def explore(W, fn, bound, check, max_execs=100000):
    """Deviation-bounded (preemptions + non-default resumptions) stateless DFS.  check(sched) -> outcome key (hashable) or raises.  Returns dict(executions,
    outcomes, complete, schedules)."""
    outcomes = {}
    execs = 0
    stack = [()]
    complete = True
    while stack:
        prefix = stack.pop()
        s = Sched(W).run(fn, prefix)
        execs += 1
        key = check(s)
        outcomes.setdefault(key, prefix)
        # branch on every later point
        # deviation bound: every non-default choice costs 1 - a preemption (switching away from a rank that is still
        # enabled) as well as resuming another than the lowest-numbered enabled rank when the running rank blocks
        # (free non-preemptive switches explode combinatorially on meshes whose creation has hundreds of barriers)
        pre = 0
        for i, (order, k, running_enabled) in enumerate(s.points):
            if i >= len(prefix):
                for alt in range(1, len(order)):
                    if pre + 1 <= bound:
                        stack.append(tuple(p[1] for p in s.points[:i]) + (alt,))
            if k != 0:
                pre += 1
        if execs >= max_execs:
            complete = False
            break
    return {"executions": execs, "outcomes": outcomes, "complete": complete}


# ----------------------------------------------------------------------------- trace oracles


def trace_oracles(s):
    """-> list of violation strings about process-group creation and collective consistency."""
    msgs = list(s.anomalies)
    # every rank performs the same sequence of process-group creations
    base = s.creations[0]
    for r in range(1, s.W):
        if s.creations[r] != base and not (s.errors[r] or s.errors[0]):
            msgs.append(f"ranks perform different sequences of process-group creations: rank 0 {base} vs rank {r} {s.creations[r]}")
            break
    # for every group, the members' collective subsequences are identical
    per_group = {}
    for r in range(s.W):
        for ev in s.trace[r]:
            if ev[0] == "collective":
                per_group.setdefault((ev[2], ev[3]), {}).setdefault(r, []).append((ev[1], ev[4]))
    if s.deadlock is None and not any(s.errors):
        for (name, members), by_rank in per_group.items():
            seqs = list(by_rank.values())
            if members is not None and set(by_rank) != set(members):
                msgs.append(f"group '{name}' {members}: collectives were called only by ranks {sorted(by_rank)}")
            elif any(q != seqs[0] for q in seqs):
                msgs.append(f"group '{name}' {members}: members performed different collective sequences {by_rank}")
    return msgs
