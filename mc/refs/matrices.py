"""Deterministic matrix families for the matrix-function checks (C10-C12): A = Q diag(lam) Q^T with
Q from a formula-defined family of orthogonal matrices and lam from per-property spectrum families.
Everything is float64 numpy; nothing is random."""
from __future__ import annotations

import numpy as np

ANGLES = [0.3, 1.2, 0.7, 2.1, 0.45, 1.7, 2.6, 0.9]
BASES = ["identity", "perm", "householder", "givens", "dct"]


def basis(kind, n, variant=0):
    if n == 1:
        return np.ones((1, 1))
    if kind == "identity":
        return np.eye(n)
    if kind == "perm":
        P = np.zeros((n, n))
        for i in range(n):
            P[i, (n - 1 - i + variant) % n] = 1.0
        return P
    if kind == "householder":
        v = np.arange(1, n + 1, dtype=np.float64) + variant
        v[::2] *= -1.0
        return np.eye(n) - 2.0 * np.outer(v, v) / (v @ v)
    if kind == "givens":
        Q = np.eye(n)
        for sweep in range(2):
            for i in range(n - 1):
                th = ANGLES[(i + 3 * sweep + variant) % len(ANGLES)]
                c, s = np.cos(th), np.sin(th)
                G = np.eye(n)
                G[i, i] = c
                G[i + 1, i + 1] = c
                G[i, i + 1] = -s
                G[i + 1, i] = s
                Q = Q @ G
        return Q
    if kind == "dct":
        k = np.arange(n).reshape(-1, 1)
        i = np.arange(n).reshape(1, -1)
        Q = np.cos(np.pi * (2 * i + 1) * k / (2 * n)) * np.sqrt(2.0 / n)
        Q[0] *= np.sqrt(0.5)
        return Q.T
    raise ValueError(kind)


def spectrum(kind, n, cond=1e3):
    """eigenvalues in [0, 1] (scale applied by the caller), listed ascending."""
    if n == 1:
        return np.array([1.0 if kind != "zero" else 0.0])
    if kind == "equal":
        lam = np.ones(n)
    elif kind == "geometric":
        lam = cond ** (-np.arange(n)[::-1] / (n - 1))
    elif kind == "one_tiny":
        lam = np.ones(n)
        lam[0] = 1.0 / cond
    elif kind == "clustered":
        base = cond ** (-np.arange((n + 1) // 2)[::-1] / max((n + 1) // 2 - 1, 1))
        lam = np.sort(np.concatenate([base, base * (1 + 1e-3)])[:n])
    elif kind == "rankdef":
        lam = np.concatenate([np.zeros(n // 2), np.linspace(0.5, 1.0, n - n // 2)])
    elif kind == "linear":
        lam = np.linspace(1.0 / cond, 1.0, n)
    elif kind == "zero":
        lam = np.zeros(n)
    elif kind == "one_zero":
        lam = np.linspace(0.25, 1.0, n)
        lam[0] = 0.0
    elif kind == "distinct":
        lam = np.linspace(0.2, 1.0, n) ** 2
    elif kind == "repeated_pair":
        lam = np.linspace(0.2, 1.0, n)
        lam[-2] = lam[-1]
    else:
        raise ValueError(kind)
    return np.sort(lam)


def assemble(Q, lam):
    A = (Q * lam) @ Q.T
    return (A + A.T) / 2.0


def spectral_fn(Q, lam, f):
    X = (Q * f(lam)) @ Q.T
    return (X + X.T) / 2.0
