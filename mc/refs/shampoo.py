"""Boring float64 (numpy) reference model of the documented Distributed Shampoo update rule
(Shampoo and eigenvalue-corrected Shampoo / SOAP), block by block.

No foreach lists, no masks, no in-place aliasing: blocks without gradient are simply skipped.
State per block: Kronecker factors L_k, inverse roots X_k (Shampoo) or eigenbases Q_k and corrected
eigenvalues V (SOAP), filtered gradient, momentum, grafting accumulator; one step counter per group.
"""
from __future__ import annotations

from math import prod

import numpy as np

from .blocks import ref_blocks


def mode_gram(G, k):
    """Gram matrix of the mode-k unfolding: contraction over all dims except k."""
    axes = [a for a in range(G.ndim) if a != k]
    return np.tensordot(G, G, axes=(axes, axes))


def mode_apply(G, M, k):
    """Apply matrix M along dimension k:  out[..., j, ...] = sum_i M[j, i] G[..., i, ...]."""
    return np.moveaxis(np.tensordot(M, G, axes=([1], [k])), 0, k)


def inv_root_psd(A, r, eps, exponent32=True):
    """(A - min(lam_min,0) I + eps I)^(-1/r) by float64 eigh.  The library carries the exponent -1/r as a
    float32 scalar; the reference uses the same rounded exponent (documented limit, see C10)."""
    if A.shape == (1, 1):
        lam = A.reshape(1).copy()
        lam = lam - np.minimum(lam, 0.0) + eps
        e = float(np.float32(-1.0 / r)) if exponent32 else -1.0 / r
        return (lam ** e).reshape(1, 1), 1.0
    lam, Q = np.linalg.eigh((A + A.T) / 2)
    lam = lam - min(lam.min(), 0.0) + eps
    e = float(np.float32(-1.0 / r)) if exponent32 else -1.0 / r
    return (Q * lam ** e) @ Q.T, float(lam.max() / lam.min())


class RefBlock:
    def __init__(self, pidx, bidx, shape, idx, ignored, soap, has_filt, has_mom, has_gacc):
        self.pidx, self.bidx, self.shape, self.idx = pidx, bidx, tuple(shape), idx
        self.order = len(self.shape)
        self.pre_dims = [k for k in range(self.order) if k not in ignored]
        self.L = {k: np.zeros((self.shape[k],) * 2) for k in self.pre_dims}
        self.soap = soap
        if soap:
            self.Q = {k: np.zeros((self.shape[k],) * 2) for k in self.pre_dims}
            self.V = np.zeros(self.shape)
        else:
            self.X = {k: np.zeros((self.shape[k],) * 2) for k in self.pre_dims}
        self.filt = np.zeros(self.shape) if has_filt else None
        self.mom = np.zeros(self.shape) if has_mom else None
        self.gacc = np.zeros(self.shape) if has_gacc else None
        self.last_delta = None
        self.last_refreshed = False
        # natural magnitudes of the operands of the last update of each quantity: the comparison scale must not be
        # smaller than these, otherwise cancellation (e.g. momentum*M + P ~ 0 in a 1-element block) turns ordinary
        # rounding of the operands into a huge relative error of the result
        self.scale = {}


def effective_group_hyper(cfg, gi):
    h = {k: v for k, v in cfg.items() if k not in ("groups", "shapes")}
    if cfg.get("groups"):
        h.update(cfg["groups"][gi].get("over", {}))
    if h.get("beta3", -1.0) == -1.0:
        # a group that leaves beta3 unset inherits the optimizer-level resolved value
        top_b3 = cfg.get("beta3", -1.0)
        h["beta3"] = cfg["betas"][0] if top_b3 == -1.0 else top_b3
    if h.get("start", -1) == -1:
        top = cfg.get("start", -1)
        h["start"] = cfg["freq"] if top == -1 else top
    return h


class RefGroup:
    def __init__(self, hyper, pidxs, shapes):
        self.h = dict(hyper)
        self.t = 0
        self.pidxs = list(pidxs)
        pc = self.h["precond"]
        self.soap = pc[0] == "soap"
        ignored = pc[1].get("ignored", [])
        g = self.h.get("graft")
        self.blocks = []
        for p in self.pidxs:
            _, blks = ref_blocks(shapes[p], self.h["max_dim"], self.h["merge"])
            for b, (bshape, idx) in enumerate(blks):
                self.blocks.append(
                    RefBlock(p, b, bshape, idx, ignored, self.soap, self.h["betas"][0] != 0.0, self.h["momentum"] != 0.0, g is not None and g[0] != "sgd")
                )
        # frozen at construction in the library (captured by the preconditioner lists)
        self.beta2 = self.h["betas"][1]
        self.eps = self.h["eps"]
        self.bias_corr_pre = self.h["bias_corr"]
        self.override = self.h["inv_root_override"]
        self.graft = g
        self.exp_mult = pc[1].get("exp_mult", 1.0)

    def root(self, order):
        ov = self.override
        default = 2 if self.soap else 2 * order
        if isinstance(ov, (list, tuple)):
            return default if order >= len(ov) else ov[order]
        return default if ov == 0 else ov


class RefOpt:
    """cfg: see mc.seq.default_cfg.  params: list of float64 arrays (any shape), updated in place."""

    def __init__(self, cfg, params):
        self.cfg = cfg
        self.pscale = {}  # per parameter: magnitude of the operands of the last update (see RefBlock.scale)
        self.kappa = 1.0  # largest condition number of a regularised factor matrix seen at a refresh (tolerance scaling)
        self.params = [np.array(p, dtype=np.float64) for p in params]
        shapes = [tuple(s) for s in cfg["shapes"]]
        if cfg.get("groups"):
            self.groups = [RefGroup(effective_group_hyper(cfg, gi), g["params"], shapes) for gi, g in enumerate(cfg["groups"])]
        else:
            self.groups = [RefGroup(effective_group_hyper(cfg, 0), range(len(shapes)), shapes)]

    # -- helpers
    def _graft_dir(self, grp, blk, Gbar, t):
        g = grp.graft
        if g[0] == "sgd":
            return Gbar
        beta2g = 1.0 if g[0] == "adagrad" else g[1]
        epsg = g[-1]
        bc = (1.0 - beta2g ** t) if (g[0] == "adam" and beta2g < 1.0) else 1.0
        return Gbar / (np.sqrt(blk.gacc / bc) + epsg)

    def step(self, grads, bases=None):
        """grads: list (per param) of arrays or None.  bases: for SOAP, dict (pidx,bidx,k)->Q taken from the
        implementation's state after the same step ('given those bases')."""
        for grp in self.groups:
            h = grp.h
            active = [b for b in grp.blocks if grads[b.pidx] is not None]
            for b in grp.blocks:
                b.last_delta = None
                b.last_refreshed = False
            if not active:
                continue
            grp.t += 1
            t = grp.t
            lr, wd = h["lr"], h["wd"]
            beta1, beta3 = h["betas"][0], h["beta3"]
            refresh = (t % h["freq"] == 0 and t > h["start"]) or t == h["start"]
            bc2 = (1.0 - grp.beta2 ** t) if (grp.bias_corr_pre and grp.beta2 < 1.0) else 1.0
            for b in active:
                W = self.params[b.pidx].reshape(-1)[b.idx]
                G = np.asarray(grads[b.pidx], dtype=np.float64).reshape(-1)[b.idx]
                if wd != 0.0 and not h["decoupled"]:
                    G = G + wd * W
                # Kronecker factors
                for k in b.pre_dims:
                    gram = mode_gram(G, k)
                    b.L[k] = grp.beta2 * b.L[k] + (1.0 - grp.beta2) * gram if grp.beta2 != 1.0 else b.L[k] + gram
                if refresh:
                    b.last_refreshed = True
                    if grp.soap:
                        for k in b.pre_dims:
                            if bases is not None and (b.pidx, b.bidx, k) in bases:
                                b.Q[k] = np.array(bases[(b.pidx, b.bidx, k)], dtype=np.float64)
                    else:
                        r = grp.root(b.order) / grp.exp_mult
                        for k in b.pre_dims:
                            b.X[k], kap = inv_root_psd(b.L[k] / bc2, r, grp.eps)
                            self.kappa = max(self.kappa, kap)
                if grp.soap:
                    have_basis = bool(b.pre_dims) and bool(np.any(b.Q[b.pre_dims[0]]))
                    Grot = G
                    if have_basis:
                        for k in b.pre_dims:
                            Grot = mode_apply(Grot, b.Q[k].T, k)
                    b.V = grp.beta2 * b.V + (1.0 - grp.beta2) * Grot ** 2 if grp.beta2 != 1.0 else b.V + Grot ** 2
                # grafting accumulator
                if b.gacc is not None:
                    beta2g = 1.0 if grp.graft[0] == "adagrad" else grp.graft[1]
                    b.gacc = beta2g * b.gacc + (1.0 - beta2g) * G ** 2 if beta2g != 1.0 else b.gacc + G ** 2
                # filtered gradient
                if beta1 != 0.0:
                    Gbar = beta3 * b.filt + (1.0 - beta3) * G
                    b.scale["filt"] = float(max(np.max(np.abs(beta1 * b.filt)), np.max(np.abs((1.0 - beta1) * G))))
                    b.filt = beta1 * b.filt + (1.0 - beta1) * G
                    if h["bias_corr"]:
                        Gbar = Gbar / (1.0 - beta3 * beta1 ** (t - 1))
                else:
                    Gbar = G
                # search direction
                use_graft = t < h["start"] and grp.graft is not None
                if use_graft:
                    P = self._graft_dir(grp, b, Gbar, t)
                else:
                    if grp.soap:
                        P = Gbar
                        if have_basis:
                            for k in b.pre_dims:
                                P = mode_apply(P, b.Q[k].T, k)
                        P = P / (b.V / bc2 + grp.eps) ** (1.0 / grp.root(b.order))
                        if have_basis:
                            for k in b.pre_dims:
                                P = mode_apply(P, b.Q[k], k)
                    else:
                        P = Gbar
                        for k in b.pre_dims:
                            P = mode_apply(P, b.X[k].T, k)
                    if grp.graft is not None:
                        gn = np.linalg.norm(self._graft_dir(grp, b, Gbar, t))
                        P = P * (gn / (np.linalg.norm(P) + 1e-16))
                P = np.array(P, dtype=np.float64)
                if wd != 0.0 and h["decoupled"]:
                    P = P + wd * W
                if h["momentum"] != 0.0:
                    b.scale["mom"] = float(max(np.max(np.abs(h["momentum"] * b.mom)), np.max(np.abs((1.0 - h["dampening"]) * P))))
                    b.mom = h["momentum"] * b.mom + (1.0 - h["dampening"]) * P
                    P = (1.0 - h["dampening"]) * P + h["momentum"] * b.mom if h["nesterov"] else b.mom.copy()
                delta = -lr * P
                b.last_delta = delta
                self.pscale[b.pidx] = max(self.pscale.get(b.pidx, 0.0), float(np.max(np.abs(W))), float(np.max(np.abs(delta))))
                flat = self.params[b.pidx].reshape(-1)
                flat[b.idx] = W + delta
