"""Independent (numpy) reference for merging and blocking: a parameter of a given shape is turned
into an ordered list of blocks, each described by the flat indices (row-major) it covers and its shape."""
from __future__ import annotations

import itertools
from math import prod

import numpy as np


def ref_merge(shape, threshold):
    """Drop size-1 dims, fuse adjacent dims left-to-right while the product stays <= threshold."""
    dims = [d for d in shape if d != 1]
    if not dims:
        return (1,)
    out = [dims[0]]
    for d in dims[1:]:
        if out[-1] * d <= threshold:
            out[-1] *= d
        else:
            out.append(d)
    return tuple(out)


def ref_blocks(shape, max_dim, merge):
    """-> (merged_shape, [ (block_shape, flat_index_array) ... ]) in the library's block order
    (lexicographic in the chunk index of dim 0, dim 1, ...)."""
    shape = tuple(shape)
    mshape = ref_merge(shape, max_dim) if merge else shape
    n = prod(shape) if shape else 1
    idx = np.arange(n).reshape(mshape)
    if len(mshape) == 0:
        return mshape, [((), idx.reshape(()))]
    ranges = []
    for d in mshape:
        ranges.append([(a, min(a + max_dim, d)) for a in range(0, d, max_dim)] or [(0, 0)])
    blocks = []
    for combo in itertools.product(*ranges):
        sl = tuple(slice(a, b) for a, b in combo)
        sub = idx[sl]
        blocks.append((tuple(sub.shape), sub))
    return mshape, blocks
