"""Shared drivers for the multi-rank checks (C06, C07-HSDP, C08-Hybrid, C14-sim, C09-DDP): per-rank program that builds
the real optimizer with a distributed config and replays a history; the serial twin in which only the communicated
quantity is rounded through the communication dtype."""
from __future__ import annotations

from . import common, seq, sim

COMM = {"DEFAULT": "f32", "FP32": "f32", "FP16": "f16", "BF16": "bf16"}


def comm_enum(name):
    from distributed_shampoo.shampoo_types import CommunicationDType

    return getattr(CommunicationDType, name)


def serial_with_rounding(cfg, hist, comm, communicate_params, record_state=False):
    """Single-process optimizer; the update (resp. the updated parameter) of every block is rounded through the
    communication dtype - the only deviation the property allows.  Returns list of per-step parameter tensors."""
    import torch
    from distributed_shampoo.shampoo_types import DISTRIBUTOR

    params, opt = seq.build(cfg)
    cdt = common.dtype_of(COMM[comm])
    for st in opt._per_group_state_lists:
        d = st[DISTRIBUTOR]

        def update_params(masked_blocked_search_directions, d=d):
            ps = d.local_masked_blocked_params
            if communicate_params:
                torch._foreach_add_(ps, masked_blocked_search_directions)
                for p in ps:
                    p.copy_(p.to(cdt).to(p.dtype))
            else:
                torch._foreach_add_(ps, [u.to(cdt).to(u.dtype) for u in masked_blocked_search_directions])

        d.update_params = update_params
    out = []
    t = 0
    for ev in hist:
        if ev[0] == "set":
            seq.apply_set(opt, None, ev)
            continue
        if ev[0] == "scale":  # parameters modified in place outside the optimizer (checkpoint load, clipping, projection)
            import torch

            with torch.no_grad():
                for p in params:
                    p.mul_(ev[1])
            continue
        seq.set_grads(params, cfg, t, ev[1])
        opt.step()
        t += 1
        out.append([p.detach().clone() for p in params])
    return out, (opt, params)


def ddp_program(cfg, hist, comm, group_size, communicate_params, observe=None):
    """-> fn(rank, W) for Sched.run: real DistributedShampoo with DDPShampooConfig on every rank."""

    def fn(rank, W):
        import torch
        from distributed_shampoo.shampoo_types import DDPShampooConfig

        dc = DDPShampooConfig(communication_dtype=comm_enum(comm), num_trainers_per_group=group_size, communicate_params=communicate_params)
        params, opt = seq.build(cfg, distributed_config=dc)
        out = []
        t = 0
        extra = observe(rank, W, opt, params, "init") if observe else None
        for ev in hist:
            if ev[0] == "set":
                seq.apply_set(opt, None, ev)
                continue
            if ev[0] == "scale":
                with torch.no_grad():
                    for p in params:
                        p.mul_(ev[1])
                continue
            seq.set_grads(params, cfg, t, ev[1])
            opt.step()
            t += 1
            out.append([p.detach().clone() for p in params])
        if observe:
            extra = observe(rank, W, opt, params, "end") or extra
        return {"steps": out, "extra": extra}

    return fn


def compare_steps(a, b, what, ulps=0, u=None):
    """a, b: lists (per step) of lists (per param) of tensors."""
    import torch

    if len(a) != len(b):
        return [f"{what}: {len(a)} steps vs {len(b)}"]
    for t, (pa, pb) in enumerate(zip(a, b)):
        for i, (x, y) in enumerate(zip(pa, pb)):
            if torch.equal(x, y):
                continue
            if ulps and x.shape == y.shape:
                scale = max(y.double().abs().max().item(), 1e-30)
                if (x.double() - y.double()).abs().max().item() <= ulps * u * scale:
                    continue
            d = (x.double() - y.double()).abs().max().item() if x.shape == y.shape else float("nan")
            return [f"{what}: parameter {i} differs after step {t} (max abs diff {d:.3e})"]
    return []


def owners_of(opt, params):
    """set of parameter indices for which this rank holds optimizer state blocks (public: optimizer.state)."""
    import torch

    own = set()
    for i, p in enumerate(params):
        for k, v in opt.state[p].items():
            if k == "step":
                continue
            own.add(i)
    return own
